// Symbolic well-formed boards and moves (DESIGN.md 1.1 rule 1, 3.1).
//
// The twelve piece sets are the free symbolic objects (pairwise disjoint); squares, colour sets
// and the combined set are *defined* from them, so `wf` holds by construction.  Everything else
// of the invariant (`Inv`) is assumed piecemeal by the harness that needs it, through the
// `assume_*` functions below; each is a clause of "valid position" (C11) or of `wf`.

use crate::bitboard::Bitboard;
use crate::board::{Board, RawBoard};
use crate::moves::{Move, MoveKind};
use crate::types::{CastlingRights, Cell, Color, Coord};
use crate::verif_refspec as rs;
use crate::verif_shim as vk;

pub fn any_sq() -> u8 { let i = vk::any_u8(); vk::assume(i < 64); i }
pub fn coord(i: u8) -> Coord { unsafe { Coord::from_index_unchecked(i as usize) } }
pub fn cell(c: u8) -> Cell { unsafe { Cell::from_index_unchecked(c as usize) } }
pub fn any_color() -> Color { if vk::any_bool() { Color::White } else { Color::Black } }

pub fn any_pieces() -> [Bitboard; 13] {
    let mut p = [Bitboard::EMPTY; 13];
    let mut acc = 0u64;
    let mut c = 1;
    while c < 13 {
        let x = vk::any_u64();
        vk::assume(x & acc == 0);
        acc |= x;
        p[c] = Bitboard::from_raw(x);
        c += 1;
    }
    p
}

pub fn cell_code_at(p: &[Bitboard; 13], i: u8) -> u8 {
    let mut v = 0u8;
    let mut c = 1u8;
    while c < 13 { if (p[c as usize].as_raw() >> i) & 1 == 1 { v = c; } c += 1; }
    v
}

pub fn cells_of(p: &[Bitboard; 13]) -> [Cell; 64] {
    let mut cells = [Cell::EMPTY; 64];
    let mut r = 0u8;
    while r < 8 { let mut f = 0u8; while f < 8 { let i = r * 8 + f; cells[i as usize] = cell(cell_code_at(p, i)); f += 1; } r += 1; }
    cells
}

pub fn board_from(p: [Bitboard; 13], side: Color, castling: CastlingRights, ep: Option<Coord>, mc: u16, mn: u16, hash: u64) -> Board {
    let white = p[1] | p[2] | p[3] | p[4] | p[5] | p[6];
    let black = p[7] | p[8] | p[9] | p[10] | p[11] | p[12];
    let b = Board {
        r: RawBoard { cells: cells_of(&p), side, castling, ep_source: ep, move_counter: mc, move_number: mn },
        hash, white, black, all: white | black, pieces: p,
    };
    #[cfg(not(kani))]
    vk::note(&format!("board fen={} hash={:#x}", b.r.as_fen(), b.hash));
    b
}

/// a well-formed board: derived sets consistent with the squares; every other field arbitrary
pub fn any_board() -> Board {
    let p = any_pieces();
    let side = any_color();
    let cr = vk::any_u8(); vk::assume(cr < 16);
    let epi = vk::any_u8(); vk::assume(epi <= 64);
    let ep = if epi == 64 { None } else { Some(coord(epi)) };
    board_from(p, side, CastlingRights::from_index(cr as usize), ep, vk::any_u16(), vk::any_u16(), vk::any_u64())
}

/// same with a constant side to move (so that colour-generic code constant-folds)
pub fn any_board_side(side: Color) -> Board {
    let p = any_pieces();
    let cr = vk::any_u8(); vk::assume(cr < 16);
    let epi = vk::any_u8(); vk::assume(epi <= 64);
    let ep = if epi == 64 { None } else { Some(coord(epi)) };
    board_from(p, side, CastlingRights::from_index(cr as usize), ep, vk::any_u16(), vk::any_u16(), vk::any_u64())
}

// ---- clauses of "valid position" ----------------------------------------------------------
pub fn assume_one_king_each(b: &Board) {
    vk::assume(b.pieces[2].len() == 1 && b.pieces[8].len() == 1);
}
pub fn assume_at_most_16(b: &Board) {
    vk::assume(b.white.len() <= 16 && b.black.len() <= 16);
}
pub fn assume_no_backrank_pawns(b: &Board) {
    vk::assume(((b.pieces[1] | b.pieces[7]).as_raw() & 0xff000000000000ff) == 0);
}
/// a recorded en-passant pawn is an enemy pawn on the rank appropriate to the side to move, with
/// an empty square behind it (what validation leaves in place)
pub fn assume_ep_consistent(b: &Board) {
    if let Some(p) = b.r.ep_source {
        let i = p.index() as u8;
        let white = b.r.side == Color::White;
        vk::assume(i / 8 == if white { 3 } else { 4 });
        vk::assume(b.pieces[rs::code(!white, rs::PAWN) as usize].has(p));
        let behind = if white { i - 8 } else { i + 8 };
        vk::assume(!b.all.has(coord(behind)));
    }
}
/// castling rights only with king and rook on their home squares
pub fn assume_castling_normal(b: &Board) {
    use crate::types::CastlingSide::{King, Queen};
    let c = b.r.castling;
    if c.has(Color::White, King) { vk::assume(b.pieces[2].has(coord(60)) && b.pieces[5].has(coord(63))); }
    if c.has(Color::White, Queen) { vk::assume(b.pieces[2].has(coord(60)) && b.pieces[5].has(coord(56))); }
    if c.has(Color::Black, King) { vk::assume(b.pieces[8].has(coord(4)) && b.pieces[11].has(coord(7))); }
    if c.has(Color::Black, Queen) { vk::assume(b.pieces[8].has(coord(4)) && b.pieces[11].has(coord(0))); }
}
/// the side that has just moved is not in check
pub fn assume_opponent_king_safe(b: &Board) {
    let white = b.r.side == Color::White;
    let k = b.pieces[rs::code(!white, rs::KING) as usize].as_raw().trailing_zeros() as u8;
    vk::assume(k < 64);
    vk::assume(!rs::ref_attacked(&b.r.cells, k, white));
}
/// every clause of validity
pub fn assume_valid(b: &Board) {
    assume_one_king_each(b);
    assume_at_most_16(b);
    assume_no_backrank_pawns(b);
    assume_ep_consistent(b);
    assume_castling_normal(b);
    assume_opponent_king_safe(b);
}

pub fn any_move_of_kind(kind: MoveKind) -> Move {
    let c = vk::any_u8(); vk::assume(c < 13);
    let s = any_sq(); let d = any_sq();
    let m = unsafe { Move::new_unchecked(kind, cell(c), coord(s), coord(d)) };
    #[cfg(not(kani))]
    vk::note(&format!("move kind={:?} cell={:?} src={} dst={}", kind, cell(c), coord(s), coord(d)));
    m
}

/// pointwise well-formedness of the derived sets at square i (conjunction over i is `wf`)
pub fn wf_at(b: &Board, i: u8) -> bool {
    let c = rs::ci(b.r.cells[i as usize]);
    if c > 12 { return false; }
    let mut ok = !b.pieces[0].has(coord(i));
    let mut k = 1u8;
    while k < 13 { if b.pieces[k as usize].has(coord(i)) != (c == k) { ok = false; } k += 1; }
    ok && b.white.has(coord(i)) == rs::is_white_code(c)
        && b.black.has(coord(i)) == rs::is_black_code(c)
        && b.all.has(coord(i)) == (c != 0)
}

// ---- contracts of the table layer, used as stubs above it (DESIGN.md 1.1 rule 4) ---------------
// `attack::rook` / `attack::bishop` are proved equal to these in C15; every board-level harness
// replaces them by their contract so that the magic multiplication and the 100k-entry tables
// never enter a board-level query.
pub fn stub_rook(c: Coord, occ: Bitboard) -> Bitboard {
    Bitboard::from_raw(rs::slide_ref(c.index() as u8, occ.as_raw(), &rs::ROOK_D))
}
pub fn stub_bishop(c: Coord, occ: Bitboard) -> Bitboard {
    Bitboard::from_raw(rs::slide_ref(c.index() as u8, occ.as_raw(), &rs::BISHOP_D))
}

/// from-scratch Zobrist hash over the key tables of the build under test: side key for White,
/// en-passant key of the marked square, castling key of the rights set, piece key of every
/// occupied square.  Neither counter is read.
pub fn ref_hash(raw: &RawBoard) -> u64 {
    use crate::zobrist;
    let mut h = if raw.side == Color::White { zobrist::MOVE_SIDE } else { 0 };
    if let Some(p) = raw.ep_source { h ^= zobrist::enpassant(p); }
    h ^= zobrist::castling(raw.castling);
    let mut r = 0;
    while r < 8 { let mut f = 0; while f < 8 {
        let i = r * 8 + f;
        let c = raw.cells[i];
        if rs::ci(c) != 0 { h ^= zobrist::pieces(c, coord(i as u8)); }
        f += 1; } r += 1; }
    h
}

/// a fully arbitrary raw board (cell-primary): every assignment of the 13 cell values to the 64
/// squares, side, rights, any mark, any counters
pub fn any_raw() -> RawBoard {
    let mut cells = [Cell::EMPTY; 64];
    let mut r = 0;
    while r < 8 { let mut f = 0; while f < 8 { let c = vk::any_u8(); vk::assume(c < 13); cells[r * 8 + f] = cell(c); f += 1; } r += 1; }
    let side = any_color();
    let cr = vk::any_u8(); vk::assume(cr < 16);
    let epi = vk::any_u8(); vk::assume(epi <= 64);
    let raw = RawBoard { cells, side, castling: CastlingRights::from_index(cr as usize),
        ep_source: if epi == 64 { None } else { Some(coord(epi)) }, move_counter: vk::any_u16(), move_number: vk::any_u16() };
    #[cfg(not(kani))]
    vk::note(&format!("raw fen={} (mark={:?})", raw.as_fen(), raw.ep_source));
    raw
}

/// stand-in for `movegen::has_legal_moves` where only its *contract* matters to the caller: an
/// otherwise unused bit of the position serves as the free boolean "the side to move has a
/// legal move" (the move number is not read by any outcome logic)
pub fn stub_has_legal_moves(b: &Board) -> bool { b.r.move_number & 1 == 1 }
