// C15: attack tables of the build under test against sliding / leaping geometry.
// Child module of chess/src/attack.rs: sees the private generated tables.
include!("hmacros.rs");
use super::*;
use crate::verif_refspec as rs;
use crate::verif_shim as vk;

fn any_sq() -> (u8, Coord) { let i = vk::any_u8(); vk::assume(i < 64); (i, unsafe { Coord::from_index_unchecked(i as usize) }) }

harness! {
    #[kani::unwind(9)]
    fn c15_leapers_and_pawns() {
        let (i, c) = any_sq();
        assert!(king(c).as_raw() == rs::leaper_ref(i, &rs::KING_D));
        assert!(knight(c).as_raw() == rs::leaper_ref(i, &rs::KNIGHT_D));
        assert!(pawn(Color::White, c).as_raw() == rs::pawn_attacks_ref(true, i));
        assert!(pawn(Color::Black, c).as_raw() == rs::pawn_attacks_ref(false, i));
        cover!(i == 63);
    }
}

harness! {
    #[kani::unwind(9)]
    fn c15_bishop_all_squares_all_occupancies() {
        let (i, c) = any_sq();
        let occ = vk::any_u64();
        assert!(bishop(c, Bitboard::from_raw(occ)).as_raw() == rs::slide_ref(i, occ, &rs::BISHOP_D));
        cover!(i == 27 && occ.count_ones() > 20);
    }
}

// ---- rook -------------------------------------------------------------------------------------
// thorough tier: the direct proof per square, all 2^64 occupancies (c15_rook_sqNN below; ~4 min
// of kissat per square).
// quick tier: (b) sliding depends on the occupancy only through `occ & mask` [lemma, all 2^64],
//             (c) rook == slide_ref on every subset of every mask [exhaustive native evaluation],
//             (d) every index the lookup can compute stays inside the table [native, per square].
// What quick does NOT discharge is (a) "the lookup reads the occupancy only through occ & mask";
// it is listed as assumption A-ROOK-MASK in the quick evidence and is implied by the thorough
// obligations.  (Measured: (a) as a CBMC query costs as much as the direct proof.)
harness! {
    #[kani::unwind(9)]
    fn c15_rook_relevant_occupancy_lemma() {
        let (i, _) = any_sq();
        let occ = vk::any_u64();
        let mask = MAGIC_ROOK[i as usize].mask.as_raw();
        assert!(rs::slide_ref(i, occ, &rs::ROOK_D) == rs::slide_ref(i, occ & mask, &rs::ROOK_D));
        // the mask is what the geometry says: own file and rank without the board edge in that
        // direction and without the square itself
        let (f, r) = (i % 8, i / 8);
        let j = vk::any_u8(); vk::assume(j < 64);
        let (jf, jr) = (j % 8, j / 8);
        let want = j != i && ((jf == f && jr != 0 && jr != 7) || (jr == r && jf != 0 && jf != 7));
        assert!(rs::on(mask, j) == want);
    }
}
// (c) is a native test: every subset of every mask, carry-rippler enumeration
#[cfg(not(kani))]
#[test]
fn n15_rook_enumerate_all_mask_subsets() {
    let mut n = 0u64;
    for i in 0..64u8 {
        let c = Coord::from_index(i as usize);
        let mask = MAGIC_ROOK[i as usize].mask.as_raw();
        let mut sub = 0u64;
        loop {
            let got = rook(c, Bitboard::from_raw(sub)).as_raw();
            let want = rs::slide_ref(i, sub, &rs::ROOK_D);
            if got != want {
                eprintln!("REPLAY-INPUT: attack::rook square={} occupancy={:#018x} got={:#018x} want={:#018x}", c, sub, got, want);
                panic!("rook table wrong");
            }
            n += 1;
            sub = sub.wrapping_sub(mask) & mask;
            if sub == 0 { break; }
        }
    }
    assert!(n == 102400);
    eprintln!("EVALUATIONS: {}", n);
}
#[cfg(not(kani))]
#[test]
fn n15_lookup_regions_in_bounds() {
    // (d) idx = (x * magic) >> shift < 2^(64-shift) for every x; the region [lookup, lookup + 2^(64-shift))
    // must lie inside the lookup table
    let mut n = 0u64;
    for i in 0..64usize {
        for (name, e, shift, base, len) in [
            ("rook", &MAGIC_ROOK[i], MAGIC_SHIFTS_ROOK[i], MAGIC_LOOKUP_ROOK.as_ptr(), MAGIC_LOOKUP_ROOK.len()),
            ("bishop", &MAGIC_BISHOP[i], MAGIC_SHIFTS_BISHOP[i], MAGIC_LOOKUP_BISHOP.as_ptr(), MAGIC_LOOKUP_BISHOP.len()),
        ] {
            let off = unsafe { e.lookup.offset_from(base) };
            let size = 1u64 << (64 - shift);
            if !(1 <= shift && shift < 64 && off >= 0 && (off as u64) + size <= len as u64 && e.mask.len() as u64 == 64 - shift) {
                eprintln!("REPLAY-INPUT: attack::{} square index {} lookup offset {} shift {} table length {}", name, i, off, shift, len);
                panic!("lookup region out of bounds");
            }
            n += 1;
        }
    }
    eprintln!("EVALUATIONS: {}", n);
}
#[cfg(not(kani))]
#[test]
fn n15_bishop_enumerate_all_mask_subsets() {
    let mut n = 0u64;
    for i in 0..64u8 {
        let c = Coord::from_index(i as usize);
        let mask = MAGIC_BISHOP[i as usize].mask.as_raw();
        let mut sub = 0u64;
        loop {
            let got = bishop(c, Bitboard::from_raw(sub)).as_raw();
            let want = rs::slide_ref(i, sub, &rs::BISHOP_D);
            if got != want {
                eprintln!("REPLAY-INPUT: attack::bishop square={} occupancy={:#018x} got={:#018x} want={:#018x}", c, sub, got, want);
                panic!("bishop table wrong");
            }
            n += 1;
            sub = sub.wrapping_sub(mask) & mask;
            if sub == 0 { break; }
        }
    }
    eprintln!("EVALUATIONS: {}", n);
}

// ---- rook, thorough route: the direct proof per square, all 2^64 occupancies -------------------
macro_rules! rook_sq {
    ($($name:ident = $sq:expr),* $(,)?) => { $(
        harness! {
            #[kani::unwind(9)]
            fn $name() {
                let occ = vk::any_u64();
                let c = unsafe { Coord::from_index_unchecked($sq) };
                assert!(rook(c, Bitboard::from_raw(occ)).as_raw() == rs::slide_ref($sq, occ, &rs::ROOK_D));
            }
        }
    )* };
}
rook_sq! {
    c15_rook_sq00 = 0, c15_rook_sq01 = 1, c15_rook_sq02 = 2, c15_rook_sq03 = 3, c15_rook_sq04 = 4, c15_rook_sq05 = 5, c15_rook_sq06 = 6, c15_rook_sq07 = 7,
    c15_rook_sq08 = 8, c15_rook_sq09 = 9, c15_rook_sq10 = 10, c15_rook_sq11 = 11, c15_rook_sq12 = 12, c15_rook_sq13 = 13, c15_rook_sq14 = 14, c15_rook_sq15 = 15,
    c15_rook_sq16 = 16, c15_rook_sq17 = 17, c15_rook_sq18 = 18, c15_rook_sq19 = 19, c15_rook_sq20 = 20, c15_rook_sq21 = 21, c15_rook_sq22 = 22, c15_rook_sq23 = 23,
    c15_rook_sq24 = 24, c15_rook_sq25 = 25, c15_rook_sq26 = 26, c15_rook_sq27 = 27, c15_rook_sq28 = 28, c15_rook_sq29 = 29, c15_rook_sq30 = 30, c15_rook_sq31 = 31,
    c15_rook_sq32 = 32, c15_rook_sq33 = 33, c15_rook_sq34 = 34, c15_rook_sq35 = 35, c15_rook_sq36 = 36, c15_rook_sq37 = 37, c15_rook_sq38 = 38, c15_rook_sq39 = 39,
    c15_rook_sq40 = 40, c15_rook_sq41 = 41, c15_rook_sq42 = 42, c15_rook_sq43 = 43, c15_rook_sq44 = 44, c15_rook_sq45 = 45, c15_rook_sq46 = 46, c15_rook_sq47 = 47,
    c15_rook_sq48 = 48, c15_rook_sq49 = 49, c15_rook_sq50 = 50, c15_rook_sq51 = 51, c15_rook_sq52 = 52, c15_rook_sq53 = 53, c15_rook_sq54 = 54, c15_rook_sq55 = 55,
    c15_rook_sq56 = 56, c15_rook_sq57 = 57, c15_rook_sq58 = 58, c15_rook_sq59 = 59, c15_rook_sq60 = 60, c15_rook_sq61 = 61, c15_rook_sq62 = 62, c15_rook_sq63 = 63,
}
