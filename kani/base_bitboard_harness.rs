// C20: bitboards behave as sets of squares.  mem(bb, i) is the pointwise set model; every
// operation is compared with the set operation at an arbitrary witness square i (all 2^64 sets).
include!("hmacros.rs");
use super::*;
use crate::verif_shim as vk;

fn mem(b: Bitboard, i: u8) -> bool { (b.as_raw() >> i) & 1 == 1 }
fn any_sq() -> (u8, Coord) { let i = vk::any_u8(); vk::assume(i < 64); (i, Coord::from_index(i as usize)) }
fn any_bb() -> Bitboard { Bitboard::from_raw(vk::any_u64()) }

harness! {
    fn c20_bb_insert_remove_member() {
        let a = any_bb(); let (i, _) = any_sq(); let (ci, c) = any_sq();
        assert!(a.has(Coord::from_index(i as usize)) == mem(a, i));
        assert!(mem(a.with(c), i) == (mem(a, i) || i == ci));
        assert!(mem(a.without(c), i) == (mem(a, i) && i != ci));
        assert!(mem(a.with2(c.file(), c.rank()), i) == (mem(a, i) || i == ci));
        assert!(mem(a.without2(c.file(), c.rank()), i) == (mem(a, i) && i != ci));
        let mut m = a; m.set(c); assert!(m == a.with(c));
        let mut m = a; m.unset(c); assert!(m == a.without(c));
        assert!(mem(Bitboard::from_coord(c), i) == (i == ci));
        assert!(!mem(Bitboard::EMPTY, i) && mem(Bitboard::FULL, i));
        assert!(Bitboard::from(a.as_raw()) == a && u64::from(a) == a.as_raw());
    }
}
harness! {
    fn c20_bb_boolean_algebra() {
        let a = any_bb(); let b = any_bb(); let (i, _) = any_sq();
        assert!(mem(a & b, i) == (mem(a, i) && mem(b, i)));
        assert!(mem(a | b, i) == (mem(a, i) || mem(b, i)));
        assert!(mem(a ^ b, i) == (mem(a, i) != mem(b, i)));
        assert!(mem(!a, i) == !mem(a, i));
        let mut m = a; m &= b; assert!(m == (a & b));
        let mut m = a; m |= b; assert!(m == (a | b));
        let mut m = a; m ^= b; assert!(m == (a ^ b));
        // extensionality: equal iff same members (witnessed by the raw words)
        assert!((a == b) == (a.as_raw() == b.as_raw()));
        assert!(a.is_empty() == (a.as_raw() == 0) && a.is_nonempty() == !a.is_empty());
        if mem(a, i) { assert!(a.is_nonempty()); }
    }
}
harness! {
    fn c20_bb_len_counts_members() {
        let a = any_bb();
        let mut n = 0u32;
        for r in 0..8u8 { for f in 0..8u8 { if mem(a, r * 8 + f) { n += 1; } } }
        assert!(a.len() == n);
        assert!((a.len() == 0) == a.is_empty());
    }
}
harness! {
    fn c20_bb_shifts_and_flips() {
        let a = any_bb(); let (i, c) = any_sq();
        let by = vk::any_u8(); vk::assume(by < 64);
        assert!(mem(a.shl(by as usize), i) == (i >= by && mem(a, i - by)));
        assert!(mem(a.shr(by as usize), i) == ((i as u16 + by as u16) < 64 && mem(a, i + by)));
        // flips mirror the square set: rank flip i -> i^56, file flip i -> i^7
        assert!(mem(a.flipped_rank(), i) == mem(a, i ^ 56));
        assert!(mem(a.flipped_file(), i) == mem(a, i ^ 7));
        assert!(a.flipped_rank().has(c.flipped_rank()) == a.has(c));
        assert!(a.flipped_file().has(c.flipped_file()) == a.has(c));
    }
}
harness! {
    fn c20_bb_iter_step() {
        // one-step contract of the ascending iterator: returns the least member and removes it
        let a = any_bb(); let (j, _) = any_sq();
        let mut it = a.into_iter();
        match it.next() {
            None => assert!(a.is_empty()),
            Some(c) => {
                let ci = c.index() as u8;
                assert!(ci < 64 && mem(a, ci));
                if j < ci { assert!(!mem(a, j)); }
                assert!(Bitboard::from_raw(it.0) == a.without(c));
            }
        }
        cover!(a.len() > 3);
    }
}
harness! {
    #[kani::unwind(8)]
    fn c20_bb_iter_ascending_exactly_once() {
        // bounded stand-in (sets of <= 6 squares); the unbounded statement is the induction over
        // the one-step contract c20_bb_iter_step (least member returned and removed)
        let a = any_bb(); let (w, _) = any_sq();
        vk::assume(a.len() <= 6);
        let mut last: i16 = -1; let mut hits = 0u32; let mut n = 0u32;
        for c in a {
            let ci = c.index() as i16;
            assert!(ci > last && ci < 64);
            assert!(mem(a, ci as u8));
            last = ci; n += 1;
            if ci == w as i16 { hits += 1; }
        }
        assert!(n == a.len());
        assert!(hits == if mem(a, w) { 1 } else { 0 });
    }
}
harness! {
    #[kani::unwind(66)]
    fn c20_bb_deposit_bits() {
        // reference PDEP: the k-th lowest member of the mask receives bit k of x
        let m = any_bb(); let x = vk::any_u64(); let (i, _) = any_sq();
        let got = m.deposit_bits(x);
        let mut k = 0u32; let mut want = false;
        for r in 0..8u8 { for f in 0..8u8 { let j = r * 8 + f;
            if mem(m, j) { if j == i { want = (x >> k) & 1 == 1; } k += 1; }
        } }
        assert!(mem(got, i) == (mem(m, i) && want));
    }
}
