// C20: the named rank / file / diagonal / square-colour constants contain exactly the squares
// their names say (symbolic square, symbolic index).
include!("hmacros.rs");
use super::*;
use crate::types::Coord;
use crate::verif_shim as vk;

harness! {
    fn c20_consts_lines() {
        let i = vk::any_u8(); vk::assume(i < 64);
        let c = Coord::from_index(i as usize);
        let (f, r) = ((i % 8) as usize, (i / 8) as usize);
        let k = vk::any_u8() as usize; vk::assume(k < 15);
        assert!(DIAG[k].has(c) == (f + r == k));
        assert!(ANTIDIAG[k].has(c) == (7 - r + f == k));
        if k < 8 {
            assert!(rank(crate::types::Rank::from_index(k)).has(c) == (r == k));
            assert!(file(crate::types::File::from_index(k)).has(c) == (f == k));
        }
        // a1 (file 0, rank index 7) is a dark square
        assert!(LIGHT_SQUARES.has(c) == ((f + r) % 2 == 0));
        assert!(DARK_SQUARES.has(c) == ((f + r) % 2 == 1));
        assert!(DIAG[c.diag()].has(c) && ANTIDIAG[c.antidiag()].has(c));
        cover!(k == 14);
    }
}
