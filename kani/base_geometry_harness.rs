// C20 / C18: named ranks and pawn offsets against board geometry, and against each other under
// the colour mirror (rank index r <-> 7 - r).
include!("hmacros.rs");
use super::*;
use crate::types::{Coord, File};
use crate::verif_shim as vk;

harness! {
    fn c20_geometry_ranks_and_deltas() {
        let c = if vk::any_bool() { Color::White } else { Color::Black };
        let fx = vk::any_u8(); vk::assume(fx < 8);
        let f = File::from_index(fx as usize);
        // anchors from the rules: White's pieces start on rank 1, Black's on rank 8
        assert!(castling_rank(Color::White) == Rank::R1 && castling_rank(Color::Black) == Rank::R8);
        let fwd = pawn_forward_delta(c);
        // forward = one rank away from the own home rank, same file
        let home = Coord::from_parts(f, castling_rank(c));
        assert!(home.add(fwd) == Coord::from_parts(f, double_move_src_rank(c)));
        assert!(home.add(3 * fwd) == Coord::from_parts(f, double_move_dst_rank(c)));
        assert!(home.add(4 * fwd) == Coord::from_parts(f, enpassant_src_rank(c)));
        assert!(home.add(5 * fwd) == Coord::from_parts(f, enpassant_dst_rank(c)));
        assert!(home.add(6 * fwd) == Coord::from_parts(f, promote_src_rank(c)));
        assert!(home.add(7 * fwd) == Coord::from_parts(f, promote_dst_rank(c)));
        assert!(promote_dst_rank(c) == castling_rank(c.inv()));
        // the square a pawn captured en passant stands on is the capturer's source rank
        assert!(enpassant_src_rank(c) == double_move_dst_rank(c.inv()));
        assert!(pawn_left_delta(c) == fwd - 1 && pawn_right_delta(c) == fwd + 1);
        // colour mirror
        assert!(pawn_forward_delta(c.inv()) == -fwd);
        assert!(castling_rank(c.inv()).index() == 7 - castling_rank(c).index());
        assert!(double_move_src_rank(c.inv()).index() == 7 - double_move_src_rank(c).index());
        assert!(double_move_dst_rank(c.inv()).index() == 7 - double_move_dst_rank(c).index());
        assert!(enpassant_src_rank(c.inv()).index() == 7 - enpassant_src_rank(c).index());
        assert!(enpassant_dst_rank(c.inv()).index() == 7 - enpassant_dst_rank(c).index());
        assert!(promote_src_rank(c.inv()).index() == 7 - promote_src_rank(c).index());
    }
}
