// C20 (value types) and the C12 obligations of the chess_base parsers.
// Child module of chess_base/src/types.rs: sees private items.
include!("hmacros.rs");
use super::*;
use crate::verif_shim as vk;
use core::fmt::Write;
use core::str::FromStr;

// ---- harness-side constructors, independent of the from_index functions under contract ----
fn mk_file(x: u8) -> File {
    match x { 0 => File::A, 1 => File::B, 2 => File::C, 3 => File::D, 4 => File::E, 5 => File::F, 6 => File::G, _ => File::H }
}
fn mk_rank(x: u8) -> Rank {
    // index 0 is the eighth rank (board printed from White's side, top row first)
    match x { 0 => Rank::R8, 1 => Rank::R7, 2 => Rank::R6, 3 => Rank::R5, 4 => Rank::R4, 5 => Rank::R3, 6 => Rank::R2, _ => Rank::R1 }
}
fn mk_piece(x: u8) -> Piece {
    match x { 0 => Piece::Pawn, 1 => Piece::King, 2 => Piece::Knight, 3 => Piece::Bishop, 4 => Piece::Rook, _ => Piece::Queen }
}
fn mk_color(x: u8) -> Color { if x == 0 { Color::White } else { Color::Black } }
fn any_file() -> (u8, File) { let x = vk::any_u8(); vk::assume(x < 8); (x, mk_file(x)) }
fn any_rank() -> (u8, Rank) { let x = vk::any_u8(); vk::assume(x < 8); (x, mk_rank(x)) }

/// fixed-capacity sink for `Display` output (no allocation under CBMC)
pub struct Buf<const N: usize> { pub b: [u8; N], pub n: usize, pub overflow: bool }
impl<const N: usize> Buf<N> {
    pub fn new() -> Self { Buf { b: [0; N], n: 0, overflow: false } }
    // only whole `&str` pieces are ever appended, so the prefix is valid UTF-8
    pub fn as_str(&self) -> &str { unsafe { core::str::from_utf8_unchecked(&self.b[..self.n]) } }
}
impl<const N: usize> core::fmt::Write for Buf<N> {
    fn write_str(&mut self, s: &str) -> core::fmt::Result {
        for &c in s.as_bytes() {
            if self.n >= N { self.overflow = true; return Err(core::fmt::Error); }
            self.b[self.n] = c;
            self.n += 1;
        }
        Ok(())
    }
}

// ------------------------------------------------------------------------------------------------
// index <-> value, full domains
// ------------------------------------------------------------------------------------------------
harness! {
    fn c20_file_index_roundtrip() {
        let (x, f) = any_file();
        assert!(f.index() == x as usize);
        assert!(File::from_index(x as usize) == f);
        assert!(unsafe { File::from_index_unchecked(x as usize) } == f);
        assert!(f.as_char() == (b'a' + x) as char);
        assert!(File::from_char(f.as_char()) == Some(f));
        cover!(x == 7);
    }
}
harness! {
    fn c20_rank_index_roundtrip() {
        let (x, r) = any_rank();
        assert!(r.index() == x as usize);
        assert!(Rank::from_index(x as usize) == r);
        assert!(unsafe { Rank::from_index_unchecked(x as usize) } == r);
        // rank k (1-based, from White's side) has index 8-k
        assert!(r.as_char() == (b'8' - x) as char);
        assert!(Rank::from_char(r.as_char()) == Some(r));
        cover!(x == 0);
    }
}
harness! {
    fn c20_piece_index_roundtrip() {
        let x = vk::any_u8(); vk::assume(x < 6);
        let p = mk_piece(x);
        assert!(p.index() == x as usize);
        assert!(Piece::from_index(x as usize) == p);
        assert!(unsafe { Piece::from_index_unchecked(x as usize) } == p);
        assert!(Piece::COUNT == 6);
        cover!(x == 5);
    }
}
harness! {
    fn c20_coord_index_parts() {
        let (fx, f) = any_file();
        let (rx, r) = any_rank();
        let c = Coord::from_parts(f, r);
        assert!(c.index() == (rx as usize) * 8 + fx as usize);
        assert!(c.file() == f && c.rank() == r);
        assert!(Coord::from_index(c.index()) == c);
        assert!(unsafe { Coord::from_index_unchecked(c.index()) } == c);
        assert!(c.flipped_rank() == Coord::from_parts(f, mk_rank(7 - rx)));
        assert!(c.flipped_file() == Coord::from_parts(mk_file(7 - fx), r));
        assert!(c.diag() == fx as usize + rx as usize);
        assert!(c.antidiag() == 7 - rx as usize + fx as usize);
        cover!(fx == 7 && rx == 7);
    }
}
harness! {
    fn c20_coord_from_index_total() {
        // every index below 64 is a square and decomposes uniquely
        let i = vk::any_u8(); vk::assume(i < 64);
        let c = Coord::from_index(i as usize);
        assert!(c.index() == i as usize);
        assert!(c.file().index() == (i % 8) as usize && c.rank().index() == (i / 8) as usize);
        assert!(Coord::from_parts(c.file(), c.rank()) == c);
    }
}
harness! {
    fn c20_coord_shift_add() {
        let i = vk::any_u8(); vk::assume(i < 64);
        let c = Coord::from_index(i as usize);
        let df = vk::any_u8() as i8 as isize; let dr = vk::any_u8() as i8 as isize;
        vk::assume(-8 <= df && df <= 8 && -8 <= dr && dr <= 8);
        let nf = (i % 8) as isize + df; let nr = (i / 8) as isize + dr;
        let inside = 0 <= nf && nf < 8 && 0 <= nr && nr < 8;
        match c.shift(df, dr) {
            Some(d) => { assert!(inside); assert!(d.index() as isize == nr * 8 + nf); }
            None => assert!(!inside),
        }
        // add / add_unchecked: plain index arithmetic when the result is a square
        let delta = vk::any_u8() as i8 as isize;
        let t = i as isize + delta;
        if 0 <= t && t < 64 {
            assert!(c.add(delta).index() as isize == t);
            assert!(unsafe { c.add_unchecked(delta) }.index() as isize == t);
        }
        cover!(inside);
        cover!(!inside);
    }
}
harness! {
    fn c20_cell_parts_roundtrip() {
        let cx = vk::any_u8(); vk::assume(cx < 2);
        let px = vk::any_u8(); vk::assume(px < 6);
        let cell = Cell::from_parts(mk_color(cx), mk_piece(px));
        assert!(cell.index() == 1 + 6 * cx as usize + px as usize);
        assert!(cell.color() == Some(mk_color(cx)) && cell.piece() == Some(mk_piece(px)));
        assert!(cell.is_occupied() && !cell.is_free());
        assert!(Cell::from_index(cell.index()) == cell);
        assert!(unsafe { Cell::from_index_unchecked(cell.index()) } == cell);
        assert!(cell != Cell::EMPTY);
        assert!(Cell::EMPTY.index() == 0 && Cell::EMPTY.color().is_none() && Cell::EMPTY.piece().is_none());
        assert!(Cell::EMPTY.is_free() && !Cell::EMPTY.is_occupied());
        assert!(Cell::COUNT == 13);
    }
}
harness! {
    fn c20_cell_index_total() {
        let i = vk::any_u8(); vk::assume(i < 13);
        let cell = Cell::from_index(i as usize);
        assert!(cell.index() == i as usize);
        if i == 0 { assert!(cell == Cell::EMPTY); } else {
            let c = cell.color().unwrap(); let p = cell.piece().unwrap();
            assert!(Cell::from_parts(c, p) == cell);
            assert!((c == Color::White) == (i <= 6));
            assert!(p.index() == ((i - 1) % 6) as usize);
        }
    }
}
harness! {
    fn c20_color_roundtrip() {
        let cx = vk::any_u8(); vk::assume(cx < 2);
        let c = mk_color(cx);
        assert!(c.inv() != c && c.inv().inv() == c);
        assert!(c as u8 == cx);
        assert!(Color::from_char(c.as_char()) == Some(c));
        assert!(c.as_char() == if cx == 0 { 'w' } else { 'b' });
    }
}
harness! {
    fn c20_castling_rights_set_model() {
        // a rights value is a set over {white,black} x {queen,king}; index is stable
        let i = vk::any_u8(); vk::assume(i < 16);
        let r = CastlingRights::from_index(i as usize);
        assert!(r.index() == i as usize);
        let cx = vk::any_u8(); vk::assume(cx < 2); let c = mk_color(cx);
        let sx = vk::any_u8(); vk::assume(sx < 2);
        let s = if sx == 0 { CastlingSide::Queen } else { CastlingSide::King };
        let dx = vk::any_u8(); vk::assume(dx < 2); let d = mk_color(dx);
        let tx = vk::any_u8(); vk::assume(tx < 2);
        let t = if tx == 0 { CastlingSide::Queen } else { CastlingSide::King };
        let same = cx == dx && sx == tx;
        assert!(r.with(c, s).has(d, t) == (r.has(d, t) || same));
        assert!(r.without(c, s).has(d, t) == (r.has(d, t) && !same));
        let mut m = r; m.set(c, s); assert!(m == r.with(c, s));
        let mut m = r; m.unset(c, s); assert!(m == r.without(c, s));
        let mut m = r; m.unset_color(c);
        assert!(m.has(d, t) == (r.has(d, t) && cx != dx));
        assert!(r.has_color(c) == (r.has(c, CastlingSide::King) || r.has(c, CastlingSide::Queen)));
        assert!(r.with(c, s).index() < 16 && r.without(c, s).index() < 16 && m.index() < 16);
        assert!(!CastlingRights::EMPTY.has(d, t) && CastlingRights::FULL.has(d, t));
        // two values are equal iff they have the same members
        let j = vk::any_u8(); vk::assume(j < 16);
        let q = CastlingRights::from_index(j as usize);
        let mut same_members = true;
        for a in 0..2u8 { for b in 0..2u8 {
            let bs = if b == 0 { CastlingSide::Queen } else { CastlingSide::King };
            if r.has(mk_color(a), bs) != q.has(mk_color(a), bs) { same_members = false; }
        } }
        assert!((r == q) == same_members);
    }
}

// ------------------------------------------------------------------------------------------------
// checked constructors reject exactly the out-of-range indices (expected-panic obligations:
// the only failing check must be the constructor's own assertion, and the sentinel behind the
// call must be unreachable)
// ------------------------------------------------------------------------------------------------
harness! { fn c20_file_from_index_rejects() { let x = vk::any_u64() as usize; vk::assume(x >= 8); let _ = File::from_index(x); assert!(false, "verif-sentinel-reached"); } }
harness! { fn c20_rank_from_index_rejects() { let x = vk::any_u64() as usize; vk::assume(x >= 8); let _ = Rank::from_index(x); assert!(false, "verif-sentinel-reached"); } }
harness! { fn c20_coord_from_index_rejects() { let x = vk::any_u64() as usize; vk::assume(x >= 64); let _ = Coord::from_index(x); assert!(false, "verif-sentinel-reached"); } }
harness! { fn c20_piece_from_index_rejects() { let x = vk::any_u64() as usize; vk::assume(x >= 6); let _ = Piece::from_index(x); assert!(false, "verif-sentinel-reached"); } }
harness! { fn c20_cell_from_index_rejects() { let x = vk::any_u64() as usize; vk::assume(x >= 13); let _ = Cell::from_index(x); assert!(false, "verif-sentinel-reached"); } }
harness! { fn c20_castling_from_index_rejects() { let x = vk::any_u64() as usize; vk::assume(x >= 16); let _ = CastlingRights::from_index(x); assert!(false, "verif-sentinel-reached"); } }

// ------------------------------------------------------------------------------------------------
// characters: accepted spellings are exactly the documented ones (all Unicode scalar values)
// ------------------------------------------------------------------------------------------------
harness! {
    fn c20_chars_accept_exactly() {
        let u = vk::any_u32();
        if let Some(c) = char::from_u32(u) {
            match File::from_char(c) {
                Some(f) => { assert!('a' <= c && c <= 'h'); assert!(f.index() == (u - 'a' as u32) as usize); }
                None => assert!(!('a' <= c && c <= 'h')),
            }
            match Rank::from_char(c) {
                // '1' is the first rank = index 7
                Some(r) => { assert!('1' <= c && c <= '8'); assert!(r.index() == ('8' as u32 - u) as usize); }
                None => assert!(!('1' <= c && c <= '8')),
            }
            match Color::from_char(c) {
                Some(col) => assert!((c == 'w' && col == Color::White) || (c == 'b' && col == Color::Black)),
                None => assert!(c != 'w' && c != 'b'),
            }
            // cells: ".PKNBRQpknbrq", index = position in that string
            let table = b".PKNBRQpknbrq";
            let mut want: Option<usize> = None;
            for k in 0..13 { if u == table[k] as u32 { want = Some(k); } }
            match Cell::from_char(c) {
                Some(cell) => assert!(want == Some(cell.index())),
                None => assert!(want.is_none()),
            }
            cover!(c == 'q');
            cover!(u > 0x10000);
        }
    }
}
harness! {
    fn c20_cell_as_char_roundtrip() {
        let i = vk::any_u8(); vk::assume(i < 13);
        let cell = Cell::from_index(i as usize);
        assert!(cell.as_char() == b".PKNBRQpknbrq"[i as usize] as char);
        assert!(Cell::from_char(cell.as_char()) == Some(cell));
        let u = cell.as_utf8_char();
        let j = vk::any_u8(); vk::assume(j < 13);
        // distinct cells have distinct pictures
        assert!((Cell::from_index(j as usize).as_utf8_char() == u) == (i == j));
    }
}

// ------------------------------------------------------------------------------------------------
// FromStr: every UTF-8 string of at most L bytes; totality (no panic) is an obligation of the
// same run (C12), acceptance is compared with the documented language, and the accepted value
// formats back to the input (Display <-> FromStr).
// ------------------------------------------------------------------------------------------------
fn any_str<const N: usize>(buf: &mut [u8; N]) -> usize {
    for i in 0..N { buf[i] = vk::any_u8(); }
    let len = vk::any_u8() as usize;
    vk::assume(len <= N);
    len
}

harness! {
    #[kani::unwind(6)]
    fn c20_coord_from_str_len4() {
        let mut b = [0u8; 4];
        let len = any_str(&mut b);
        if let Ok(s) = core::str::from_utf8(&b[..len]) {
            let want = len == 2 && (b'a'..=b'h').contains(&b[0]) && (b'1'..=b'8').contains(&b[1]);
            match Coord::from_str(s) {
                Ok(c) => {
                    assert!(want);
                    assert!(c.file().index() == (b[0] - b'a') as usize && c.rank().index() == (b'8' - b[1]) as usize);
                    let mut o = Buf::<4>::new();
                    assert!(write!(o, "{}", c).is_ok());
                    assert!(o.n == 2 && o.b[0] == b[0] && o.b[1] == b[1]);
                }
                Err(_) => assert!(!want),
            }
            cover!(want);
            cover!(len == 4);
        }
    }
}
fn cell_char_index(b: u8) -> Option<usize> {
    // ".PKNBRQpknbrq"
    match b { b'.' => Some(0), b'P' => Some(1), b'K' => Some(2), b'N' => Some(3), b'B' => Some(4), b'R' => Some(5), b'Q' => Some(6),
              b'p' => Some(7), b'k' => Some(8), b'n' => Some(9), b'b' => Some(10), b'r' => Some(11), b'q' => Some(12), _ => None }
}
harness! {
    #[kani::unwind(5)]
    fn c20_color_cell_from_str_len3() {
        let mut b = [0u8; 3];
        let len = any_str(&mut b);
        if let Ok(s) = core::str::from_utf8(&b[..len]) {
            match Color::from_str(s) {
                Ok(c) => {
                    assert!(len == 1 && (b[0] == b'w' || b[0] == b'b'));
                    assert!((c == Color::White) == (b[0] == b'w'));
                    let mut o = Buf::<4>::new();
                    assert!(write!(o, "{}", c).is_ok());
                    assert!(o.n == 1 && o.b[0] == b[0]);
                }
                Err(_) => assert!(!(len == 1 && (b[0] == b'w' || b[0] == b'b'))),
            }
            let want = if len == 1 { cell_char_index(b[0]) } else { None };
            match Cell::from_str(s) {
                Ok(c) => {
                    assert!(want == Some(c.index()));
                    let mut o = Buf::<4>::new();
                    assert!(write!(o, "{}", c).is_ok());
                    assert!(o.n == 1 && o.b[0] == b[0]);
                }
                Err(_) => assert!(want.is_none()),
            }
            cover!(len == 3);
            cover!(want.is_some());
        }
    }
}
harness! {
    #[kani::unwind(8)]
    fn c20_castling_from_str_len6() {
        let mut b = [0u8; 6];
        let len = any_str(&mut b);
        if let Ok(s) = core::str::from_utf8(&b[..len]) {
            // documented language: "-" or a non-empty string over KQkq without repetition
            let mut ok = len >= 1;
            let mut seen = [false; 4];
            for i in 0..6 { if i < len {
                let k = match b[i] { b'K' => 0, b'Q' => 1, b'k' => 2, b'q' => 3, _ => 4 };
                if k == 4 || seen[k] { ok = false; } else { seen[k] = true; }
            } }
            let dash = len == 1 && b[0] == b'-';
            match CastlingRights::from_str(s) {
                Ok(r) => {
                    assert!(ok || dash);
                    if dash { assert!(r == CastlingRights::EMPTY); } else {
                        assert!(r.has(Color::White, CastlingSide::King) == seen[0]);
                        assert!(r.has(Color::White, CastlingSide::Queen) == seen[1]);
                        assert!(r.has(Color::Black, CastlingSide::King) == seen[2]);
                        assert!(r.has(Color::Black, CastlingSide::Queen) == seen[3]);
                    }
                    assert!(r.index() < 16);
                }
                Err(_) => assert!(!ok && !dash),
            }
            cover!(ok && len == 4);
            cover!(len == 6);
        }
    }
}
harness! {
    #[kani::unwind(6)]
    fn c20_castling_display_roundtrip() {
        // all 16 values: canonical text is "-" or the members in the order K Q k q; parses back
        let i = vk::any_u8(); vk::assume(i < 16);
        let r = CastlingRights::from_index(i as usize);
        let mut o = Buf::<6>::new();
        assert!(write!(o, "{}", r).is_ok());
        let mut want = [0u8; 4]; let mut n = 0;
        if r.has(Color::White, CastlingSide::King) { want[n] = b'K'; n += 1; }
        if r.has(Color::White, CastlingSide::Queen) { want[n] = b'Q'; n += 1; }
        if r.has(Color::Black, CastlingSide::King) { want[n] = b'k'; n += 1; }
        if r.has(Color::Black, CastlingSide::Queen) { want[n] = b'q'; n += 1; }
        if n == 0 { want[0] = b'-'; n = 1; }
        assert!(o.n == n);
        for k in 0..4 { if k < n { assert!(o.b[k] == want[k]); } }
        assert!(CastlingRights::from_str(o.as_str()) == Ok(r));
    }
}
harness! {
    #[kani::unwind(6)]
    fn c20_coord_display_roundtrip() {
        let i = vk::any_u8(); vk::assume(i < 64);
        let c = Coord::from_index(i as usize);
        let mut o = Buf::<4>::new();
        assert!(write!(o, "{}", c).is_ok());
        assert!(o.n == 2 && o.b[0] == b'a' + i % 8 && o.b[1] == b'8' - i / 8);
        assert!(Coord::from_str(o.as_str()) == Ok(c));
    }
}

// outcome helpers used by C14 / C17 (filters and status token)
harness! {
    fn c20_outcome_filter_table() {
        let k = vk::any_u8(); vk::assume(k < 8);
        let side = mk_color(vk::any_u8() & 1);
        let o = match k {
            0 => Outcome::Win { side, reason: WinReason::Checkmate },
            1 => Outcome::Draw(DrawReason::Stalemate),
            2 => Outcome::Draw(DrawReason::InsufficientMaterial),
            3 => Outcome::Draw(DrawReason::Moves75),
            4 => Outcome::Draw(DrawReason::Repeat5),
            5 => Outcome::Draw(DrawReason::Moves50),
            6 => Outcome::Draw(DrawReason::Repeat3),
            _ => Outcome::Win { side, reason: WinReason::Resign },
        };
        let forced = k <= 1; let mandatory = (2..=4).contains(&k); let claimable = k == 5 || k == 6;
        assert!(o.is_force() == forced);
        assert!(o.passes(OutcomeFilter::Force) == forced);
        assert!(o.passes(OutcomeFilter::Strict) == (forced || mandatory));
        assert!(o.passes(OutcomeFilter::Relaxed) == (forced || mandatory || claimable));
        let st = GameStatus::from(Some(o));
        match o {
            Outcome::Win { side: Color::White, .. } => assert!(st == GameStatus::White),
            Outcome::Win { side: Color::Black, .. } => assert!(st == GameStatus::Black),
            Outcome::Draw(_) => assert!(st == GameStatus::Draw),
        }
        assert!(GameStatus::from(None) == GameStatus::Running);
        assert!(o.winner() == match o { Outcome::Win { side, .. } => Some(side), _ => None });
    }
}
