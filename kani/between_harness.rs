// C15: strictly-between sets and alignment predicates, every pair of squares.
include!("hmacros.rs");
use super::*;
use crate::verif_refspec as rs;
use crate::verif_shim as vk;

fn any_sq() -> (u8, Coord) { let i = vk::any_u8(); vk::assume(i < 64); (i, unsafe { Coord::from_index_unchecked(i as usize) }) }

harness! {
    #[kani::unwind(9)]
    fn c15_between_all_pairs() {
        let (a, ca) = any_sq(); let (b, cb) = any_sq();
        let (af, ar, bf, br) = ((a % 8) as i8, (a / 8) as i8, (b % 8) as i8, (b / 8) as i8);
        let (df, dr) = (bf - af, br - ar);
        let diag = a != b && (df == dr || df == -dr);
        let line = a != b && (df == 0 || dr == 0);
        assert!(is_bishop_valid(ca, cb) == diag);
        assert!(is_rook_valid(ca, cb) == line);
        // for pairs on a common line the set is exactly the squares strictly between, whichever
        // way round the arguments are given.  (For non-aligned pairs the geometry defines no set;
        // every caller guards with the alignment predicate or with piece geometry - see C06.)
        if diag {
            assert!(bishop_strict(ca, cb).as_raw() == rs::between_ref(a, b));
            assert!(bishop_strict(cb, ca).as_raw() == rs::between_ref(a, b));
        }
        if line {
            assert!(rook_strict(ca, cb).as_raw() == rs::between_ref(a, b));
            assert!(rook_strict(cb, ca).as_raw() == rs::between_ref(a, b));
        }
        cover!(diag && rs::between_ref(a, b).count_ones() == 6);
        cover!(line && rs::between_ref(a, b).count_ones() == 6);
    }
}
harness! {
    #[kani::unwind(9)]
    fn c15_between_ref_is_sliding_geometry() {
        // spec-level link: t is strictly between a and b iff sliding from a towards b, with b the
        // only occupied square, passes t before reaching b.  Ties between_ref to slide_ref.
        let (a, _) = any_sq(); let (b, _) = any_sq(); let (t, _) = any_sq();
        let (af, ar, bf, br) = ((a % 8) as i8, (a / 8) as i8, (b % 8) as i8, (b / 8) as i8);
        let (df, dr) = (bf - af, br - ar);
        let diag = a != b && (df == dr || df == -dr);
        let line = a != b && (df == 0 || dr == 0);
        if diag || line {
            let dirs = if diag { &rs::BISHOP_D } else { &rs::ROOK_D };
            let from_a = rs::slide_ref(a, rs::bit(b), dirs);
            let from_b = rs::slide_ref(b, rs::bit(a), dirs);
            assert!(rs::on(from_a, b) && rs::on(from_b, a));
            let between = from_a & from_b;
            assert!(rs::on(rs::between_ref(a, b), t) == rs::on(between, t));
        } else {
            assert!(rs::between_ref(a, b) == 0);
        }
    }
}
