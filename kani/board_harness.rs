// C05 (from-scratch hash), C07 (outcome classification), C11 (validation), C08 (FEN) - child of board.rs
include!("hmacros.rs");
use super::*;
use crate::verif_anyboard as ab;
use crate::verif_refspec as rs;
use crate::verif_shim as vk;

// ------------------------------------------------------------------------------------------------
// C05: RawBoard::zobrist_hash is the from-scratch definition (and so ignores both counters)
// ------------------------------------------------------------------------------------------------
harness! {
    #[kani::unwind(66)]
    fn c05_zobrist_hash_is_ref_hash() {
        let raw = ab::any_raw();
        assert!(raw.zobrist_hash() == ab::ref_hash(&raw));
        let mut other = raw;
        other.move_counter = vk::any_u16();
        other.move_number = vk::any_u16();
        assert!(other.zobrist_hash() == raw.zobrist_hash());
        cover!(raw.ep_source.is_some());
    }
}

// ------------------------------------------------------------------------------------------------
// C07: material, clocks, precedence
// ------------------------------------------------------------------------------------------------
harness! {
    #[kani::unwind(14)]
    fn c07_insufficient_material() {
        let b = ab::any_board();
        assert!(b.is_insufficient_material() == rs::ref_insufficient(&b.r.cells));
        cover!(b.is_insufficient_material() && b.all.len() >= 5);
        cover!(!b.is_insufficient_material() && b.all.len() == 4);
    }
}
harness! {
    #[kani::unwind(14)]
    #[kani::stub(crate::movegen::has_legal_moves, crate::verif_anyboard::stub_has_legal_moves)]
    #[kani::stub(crate::attack::rook, crate::verif_anyboard::stub_rook)]
    #[kani::stub(crate::attack::bishop, crate::verif_anyboard::stub_bishop)]
    fn c07_calc_outcome_precedence() {
        let b = ab::any_board();
        ab::assume_one_king_each(&b);
        assert!(b.calc_draw_simple() == rs::ref_draw_simple(&b.r));
        let has_move = ab::stub_has_legal_moves(&b);
        let white = b.r.side == Color::White;
        let in_check = rs::ref_attacked(&b.r.cells, rs::king_sq(&b.r.cells, white), !white);
        let got = b.calc_outcome();
        assert!(got == rs::ref_outcome(&b.r, has_move, in_check));
        // spelled out: forced > mandatory > claimable > none, winner is the side NOT to move
        if !has_move && in_check { assert!(got == Some(Outcome::Win { side: b.r.side.inv(), reason: WinReason::Checkmate })); }
        if !has_move && !in_check { assert!(got == Some(Outcome::Draw(DrawReason::Stalemate))); }
        if has_move && !rs::ref_insufficient(&b.r.cells) {
            let mc = b.r.move_counter;
            assert!(got == if mc >= 150 { Some(Outcome::Draw(DrawReason::Moves75)) } else if mc >= 100 { Some(Outcome::Draw(DrawReason::Moves50)) } else { None });
        }
        cover!(has_move && b.r.move_counter == 100);
        cover!(has_move && b.r.move_counter == 149);
        cover!(!has_move && in_check);
    }
}

// ------------------------------------------------------------------------------------------------
// C11: validation accepts exactly the valid raw boards, tells the truth when it refuses, and
// normalises consistently.  Fully arbitrary raw board (13^64 x side x rights x mark x counters).
// ------------------------------------------------------------------------------------------------
fn error_holds(raw: &RawBoard, e: &ValidateError) -> bool {
    let white = raw.side == Color::White;
    match e {
        ValidateError::InvalidEnpassant(p) => raw.ep_source == Some(*p) && !rs::ref_ep_rank_ok(raw),
        ValidateError::TooManyPieces(c) => rs::count_colour(&raw.cells, *c == Color::White) > 16,
        ValidateError::NoKing(c) => rs::count_code(&raw.cells, rs::code(*c == Color::White, rs::KING)) == 0,
        ValidateError::TooManyKings(c) => rs::count_code(&raw.cells, rs::code(*c == Color::White, rs::KING)) > 1,
        ValidateError::InvalidPawn(p) => {
            let i = p.index(); let c = rs::ci(raw.cells[i]);
            (i < 8 || i >= 56) && (c == rs::code(true, rs::PAWN) || c == rs::code(false, rs::PAWN))
        }
        ValidateError::OpponentKingAttacked => rs::ref_attacked(&raw.cells, rs::king_sq(&raw.cells, !white), white),
    }
}

harness! {
    #[kani::unwind(66)]
    #[kani::stub(crate::attack::rook, crate::verif_anyboard::stub_rook)]
    #[kani::stub(crate::attack::bishop, crate::verif_anyboard::stub_bishop)]
    fn c11_try_from_accepts_exactly_valid() {
        let raw = ab::any_raw();
        let res = Board::try_from(raw);
        assert!(res.is_ok() == rs::ref_valid(&raw));
        if let Err(e) = &res { assert!(error_holds(&raw, e)); }
        cover!(res.is_ok());
        cover!(matches!(res, Err(ValidateError::OpponentKingAttacked)));
        cover!(matches!(res, Err(ValidateError::InvalidPawn(_))));
    }
}
harness! {
    #[kani::unwind(66)]
    #[kani::stub(crate::attack::rook, crate::verif_anyboard::stub_rook)]
    #[kani::stub(crate::attack::bishop, crate::verif_anyboard::stub_bishop)]
    fn c11_try_from_result_is_normalised_inv() {
        let raw = ab::any_raw();
        let w = ab::any_sq();
        if let Ok(b) = Board::try_from(raw) {
            let n = rs::ref_normalise(&raw);
            // differs from the input only by the dropped rights / mark
            assert!(b.r.cells[w as usize] == raw.cells[w as usize]);
            assert!(b.r.side == raw.side && b.r.move_counter == raw.move_counter && b.r.move_number == raw.move_number);
            assert!(b.r.castling == n.castling && b.r.ep_source == n.ep_source);
            // derived state: well-formed sets, from-scratch hash
            assert!(ab::wf_at(&b, w));
            assert!(b.hash == b.r.zobrist_hash());
            cover!(b.r.castling != raw.castling);
            cover!(b.r.ep_source != raw.ep_source);
            cover!(b.r.ep_source.is_some());
        }
    }
}
harness! {
    #[kani::unwind(10)]
    fn c11_normalise_idempotent_and_valid() {
        // spec-level: normalising twice changes nothing, and does not affect validity
        let raw = ab::any_raw();
        let n = rs::ref_normalise(&raw);
        let nn = rs::ref_normalise(&n);
        assert!(nn.castling == n.castling && nn.ep_source == n.ep_source);
        assert!(rs::ref_valid(&n) == rs::ref_valid(&raw));
    }
}
