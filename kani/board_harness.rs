// C05 (from-scratch hash), C07 (outcome classification), C11 (validation), C08 (FEN) - child of board.rs
include!("hmacros.rs");
use super::*;
use crate::verif_anyboard as ab;
use crate::verif_refspec as rs;
use crate::verif_shim as vk;

// ------------------------------------------------------------------------------------------------
// C05: RawBoard::zobrist_hash is the from-scratch definition (and so ignores both counters)
// ------------------------------------------------------------------------------------------------
harness! {
    #[kani::unwind(66)]
    fn c05_zobrist_hash_is_ref_hash() {
        let raw = ab::any_raw();
        assert!(raw.zobrist_hash() == ab::ref_hash(&raw));
        let mut other = raw;
        other.move_counter = vk::any_u16();
        other.move_number = vk::any_u16();
        assert!(other.zobrist_hash() == raw.zobrist_hash());
        cover!(raw.ep_source.is_some());
    }
}

// ------------------------------------------------------------------------------------------------
// C07: material, clocks, precedence
// ------------------------------------------------------------------------------------------------
harness! {
    #[kani::unwind(14)]
    fn c07_insufficient_material() {
        let b = ab::any_board();
        assert!(b.is_insufficient_material() == rs::ref_insufficient(&b.r.cells));
        cover!(b.is_insufficient_material() && b.all.len() >= 5);
        cover!(!b.is_insufficient_material() && b.all.len() == 4);
    }
}
harness! {
    #[kani::unwind(14)]
    #[kani::stub(crate::movegen::has_legal_moves, crate::verif_anyboard::stub_has_legal_moves)]
    #[kani::stub(crate::attack::rook, crate::verif_anyboard::stub_rook)]
    #[kani::stub(crate::attack::bishop, crate::verif_anyboard::stub_bishop)]
    fn c07_calc_outcome_precedence() {
        let b = ab::any_board();
        ab::assume_one_king_each(&b);
        assert!(b.calc_draw_simple() == rs::ref_draw_simple(&b.r));
        let has_move = ab::stub_has_legal_moves(&b);
        let white = b.r.side == Color::White;
        let in_check = rs::ref_attacked(&b.r.cells, rs::king_sq(&b.r.cells, white), !white);
        let got = b.calc_outcome();
        assert!(got == rs::ref_outcome(&b.r, has_move, in_check));
        // spelled out: forced > mandatory > claimable > none, winner is the side NOT to move
        if !has_move && in_check { assert!(got == Some(Outcome::Win { side: b.r.side.inv(), reason: WinReason::Checkmate })); }
        if !has_move && !in_check { assert!(got == Some(Outcome::Draw(DrawReason::Stalemate))); }
        if has_move && !rs::ref_insufficient(&b.r.cells) {
            let mc = b.r.move_counter;
            assert!(got == if mc >= 150 { Some(Outcome::Draw(DrawReason::Moves75)) } else if mc >= 100 { Some(Outcome::Draw(DrawReason::Moves50)) } else { None });
        }
        cover!(has_move && b.r.move_counter == 100);
        cover!(has_move && b.r.move_counter == 149);
        cover!(!has_move && in_check);
    }
}

// ------------------------------------------------------------------------------------------------
// C11: validation accepts exactly the valid raw boards, tells the truth when it refuses, and
// normalises consistently.  Fully arbitrary raw board (13^64 x side x rights x mark x counters).
// ------------------------------------------------------------------------------------------------
fn error_holds(raw: &RawBoard, e: &ValidateError) -> bool {
    let white = raw.side == Color::White;
    match e {
        ValidateError::InvalidEnpassant(p) => raw.ep_source == Some(*p) && !rs::ref_ep_rank_ok(raw),
        ValidateError::TooManyPieces(c) => rs::count_colour(&raw.cells, *c == Color::White) > 16,
        ValidateError::NoKing(c) => rs::count_code(&raw.cells, rs::code(*c == Color::White, rs::KING)) == 0,
        ValidateError::TooManyKings(c) => rs::count_code(&raw.cells, rs::code(*c == Color::White, rs::KING)) > 1,
        ValidateError::InvalidPawn(p) => {
            let i = p.index(); let c = rs::ci(raw.cells[i]);
            (i < 8 || i >= 56) && (c == rs::code(true, rs::PAWN) || c == rs::code(false, rs::PAWN))
        }
        ValidateError::OpponentKingAttacked => rs::ref_attacked(&raw.cells, rs::king_sq(&raw.cells, !white), white),
    }
}

harness! {
    #[kani::unwind(66)]
    #[kani::stub(crate::attack::rook, crate::verif_anyboard::stub_rook)]
    #[kani::stub(crate::attack::bishop, crate::verif_anyboard::stub_bishop)]
    fn c11_try_from_accepts_exactly_valid() {
        let raw = ab::any_raw();
        let res = Board::try_from(raw);
        assert!(res.is_ok() == rs::ref_valid(&raw));
        if let Err(e) = &res { assert!(error_holds(&raw, e)); }
        cover!(res.is_ok());
        cover!(matches!(res, Err(ValidateError::OpponentKingAttacked)));
        cover!(matches!(res, Err(ValidateError::InvalidPawn(_))));
    }
}
harness! {
    #[kani::unwind(66)]
    #[kani::stub(crate::attack::rook, crate::verif_anyboard::stub_rook)]
    #[kani::stub(crate::attack::bishop, crate::verif_anyboard::stub_bishop)]
    fn c11_try_from_result_is_normalised_inv() {
        let raw = ab::any_raw();
        let w = ab::any_sq();
        if let Ok(b) = Board::try_from(raw) {
            let n = rs::ref_normalise(&raw);
            // differs from the input only by the dropped rights / mark
            assert!(b.r.cells[w as usize] == raw.cells[w as usize]);
            assert!(b.r.side == raw.side && b.r.move_counter == raw.move_counter && b.r.move_number == raw.move_number);
            assert!(b.r.castling == n.castling && b.r.ep_source == n.ep_source);
            // derived state: well-formed sets, from-scratch hash
            assert!(ab::wf_at(&b, w));
            assert!(b.hash == b.r.zobrist_hash());
            cover!(b.r.castling != raw.castling);
            cover!(b.r.ep_source != raw.ep_source);
            cover!(b.r.ep_source.is_some());
        }
    }
}
harness! {
    #[kani::unwind(10)]
    fn c11_normalise_idempotent_and_valid() {
        // spec-level: normalising twice changes nothing, and does not affect validity
        let raw = ab::any_raw();
        let n = rs::ref_normalise(&raw);
        let nn = rs::ref_normalise(&n);
        assert!(nn.castling == n.castling && nn.ep_source == n.ep_source);
        assert!(rs::ref_valid(&n) == rs::ref_valid(&raw));
    }
}

// ------------------------------------------------------------------------------------------------
// C08 / C12: FEN text.  Reference encoder / reader written independently of the implementation.
// ------------------------------------------------------------------------------------------------
use core::fmt::Write;
pub struct Buf96 { pub b: [u8; 96], pub n: usize }
impl core::fmt::Write for Buf96 {
    fn write_str(&mut self, s: &str) -> core::fmt::Result {
        for &c in s.as_bytes() { if self.n >= 96 { return Err(core::fmt::Error); } self.b[self.n] = c; self.n += 1; }
        Ok(())
    }
}
struct CellsFmt<'a>(&'a [Cell; 64]);
impl<'a> fmt::Display for CellsFmt<'a> {
    fn fmt(&self, f: &mut fmt::Formatter<'_>) -> fmt::Result { format_cells(self.0, f) }
}
const CELL_CHARS: &[u8; 13] = b".PKNBRQpknbrq";

/// canonical FEN board field: ranks 8..1 separated by '/', runs of empty squares as one digit
fn ref_fen_cells(cells: &[Cell; 64], out: &mut [u8; 96]) -> usize {
    let mut n = 0;
    let mut r = 0;
    while r < 8 {
        if r != 0 { out[n] = b'/'; n += 1; }
        let mut run = 0u8;
        let mut f = 0;
        while f < 8 {
            let c = rs::ci(cells[r * 8 + f]);
            if c == 0 { run += 1; } else {
                if run != 0 { out[n] = b'0' + run; n += 1; run = 0; }
                out[n] = CELL_CHARS[c as usize]; n += 1;
            }
            f += 1;
        }
        if run != 0 { out[n] = b'0' + run; n += 1; }
        r += 1;
    }
    n
}
/// independent reader of a board field (accepts exactly canonical-or-not standard FEN boards)
fn ref_fen_read_cells(t: &[u8], n: usize, cells: &mut [u8; 64]) -> bool {
    let mut pos = 0usize; let mut file = 0usize; let mut rank = 0usize;
    let mut i = 0;
    while i < 96 { if i < n {
        let ch = t[i];
        if ch == b'/' { if file != 8 || rank >= 7 { return false; } rank += 1; file = 0; }
        else if b'1' <= ch && ch <= b'8' { let k = (ch - b'0') as usize; if file + k > 8 { return false; } file += k; pos += k; }
        else {
            let mut code = 13u8; let mut k = 1; while k < 13 { if CELL_CHARS[k] == ch { code = k as u8; } k += 1; }
            if code == 13 || file >= 8 { return false; }
            cells[pos] = code; pos += 1; file += 1;
        }
    } i += 1; }
    rank == 7 && file == 8
}

harness! {
    #[kani::unwind(10)]
    fn c08_cells_one_rank_roundtrip() {
        // one symbolic rank inside an otherwise empty board, in a symbolic row: the run-length
        // logic of a rank and the separator logic between ranks (each rank is formatted and parsed
        // by the same loop body, independent of the other ranks)
        let mut cells = [Cell::EMPTY; 64];
        let row = vk::any_u8() as usize; vk::assume(row < 8);
        let mut f = 0; while f < 8 { let c = vk::any_u8(); vk::assume(c < 13); cells[row * 8 + f] = ab::cell(c); f += 1; }
        let mut o = Buf96 { b: [0; 96], n: 0 };
        assert!(write!(o, "{}", CellsFmt(&cells)).is_ok());
        let mut want = [0u8; 96];
        let n = ref_fen_cells(&cells, &mut want);
        assert!(o.n == n);
        let mut i = 0; while i < 24 { if i < n { assert!(o.b[i] == want[i]); } i += 1; }
        let txt = unsafe { core::str::from_utf8_unchecked(&o.b[..o.n]) };
        match parse_cells(txt) {
            Ok(back) => { let w = ab::any_sq(); assert!(back[w as usize] == cells[w as usize]); }
            Err(_) => assert!(false, "own output must parse"),
        }
        let mut rd = [0u8; 64];
        assert!(ref_fen_read_cells(&o.b, o.n, &mut rd));
        let w = ab::any_sq(); assert!(rd[w as usize] == rs::ci(cells[w as usize]));
        cover!(n == 22);
    }
}
harness! {
    #[kani::unwind(10)]
    fn c08_record_tail_roundtrip() {
        // the five fields after the board (board fixed to the empty one so that it constant-folds):
        // side, rights, en-passant target (mark on the rank appropriate to the side), both counters
        let side = ab::any_color();
        let cr = vk::any_u8(); vk::assume(cr < 16);
        let epf = vk::any_u8(); vk::assume(epf <= 8);
        let white = side == Color::White;
        let ep = if epf == 8 { None } else { Some(ab::coord((if white { 3 } else { 4 }) * 8 + epf)) };
        let raw = RawBoard { cells: [Cell::EMPTY; 64], side, castling: CastlingRights::from_index(cr as usize), ep_source: ep,
                             move_counter: vk::any_u16(), move_number: vk::any_u16() };
        let mut o = Buf96 { b: [0; 96], n: 0 };
        assert!(write!(o, "{}", raw).is_ok());
        // six space-separated fields, the board first
        let head = b"8/8/8/8/8/8/8/8 ";
        let mut i = 0; while i < 16 { assert!(o.b[i] == head[i]); i += 1; }
        assert!(o.b[16] == if white { b'w' } else { b'b' } && o.b[17] == b' ');
        // the en-passant field names the square BEHIND the marked pawn (rank 6 for White to move, 3 for Black)
        let txt = unsafe { core::str::from_utf8_unchecked(&o.b[..o.n]) };
        match RawBoard::from_str(txt) {
            Ok(back) => assert!(back == raw),
            Err(_) => assert!(false, "own output must parse"),
        }
        assert!(raw.ep_dest() == ep.map(|p| ab::coord(if white { p.index() as u8 - 8 } else { p.index() as u8 + 8 })));
        cover!(ep.is_some() && raw.move_number == 65535);
    }
}
harness! {
    #[kani::unwind(34)]
    fn c12_parse_cells_total_len32() {
        // every ASCII-or-not byte string of <= 32 bytes that is valid UTF-8: value or error, no
        // panic (the three assert_eq! at the end of parse_cells and the index arithmetic are
        // obligations here); an accepted field re-formats to text that parses to the same cells
        let mut b = [0u8; 32];
        let mut i = 0; while i < 32 { b[i] = vk::any_u8(); i += 1; }
        let len = vk::any_u8() as usize; vk::assume(len <= 32);
        if let Ok(s) = core::str::from_utf8(&b[..len]) {
            let r = parse_cells(s);
            let mut rd = [0u8; 64];
            let accept = ref_fen_read_cells_dot(&b, len, &mut rd);
            match r {
                Ok(cells) => { assert!(accept); let w = ab::any_sq(); assert!(rs::ci(cells[w as usize]) == rd[w as usize]); }
                Err(_) => assert!(!accept),
            }
            cover!(r.is_ok());
            cover!(len == 32 && r.is_err());
        }
    }
}
/// the accepted language of parse_cells, stated independently: like a FEN board, and '.' also
/// denotes an empty square (documented leniency: Cell::from_char('.'))
fn ref_fen_read_cells_dot(t: &[u8; 32], n: usize, cells: &mut [u8; 64]) -> bool {
    let mut pos = 0usize; let mut file = 0usize; let mut rank = 0usize;
    let mut i = 0;
    while i < 32 { if i < n {
        let ch = t[i];
        if ch == b'/' { if file != 8 || rank >= 7 { return false; } rank += 1; file = 0; }
        else if b'1' <= ch && ch <= b'8' { let k = (ch - b'0') as usize; if file + k > 8 { return false; } file += k; pos += k; }
        else {
            let mut code = 13u8; let mut k = 0; while k < 13 { if CELL_CHARS[k] == ch { code = k as u8; } k += 1; }
            if code == 13 || file >= 8 { return false; }
            cells[pos] = code; pos += 1; file += 1;
        }
    } i += 1; }
    rank == 7 && file == 8
}
harness! {
    #[kani::unwind(24)]
    fn c12_raw_from_str_tail_total() {
        // the record after a fixed board field: all strings of <= 20 bytes
        let mut t = [0u8; 36];
        let head = b"8/8/8/8/8/8/8/8";
        let mut i = 0; while i < 15 { t[i] = head[i]; i += 1; }
        let mut i = 15; while i < 35 { t[i] = vk::any_u8(); i += 1; }
        let len = vk::any_u8() as usize; vk::assume(15 <= len && len <= 35);
        if let Ok(s) = core::str::from_utf8(&t[..len]) {
            if let Ok(raw) = RawBoard::from_str(s) {
                // whatever was accepted formats to text that parses back to the same raw board
                let mut o = Buf96 { b: [0; 96], n: 0 };
                assert!(write!(o, "{}", raw).is_ok());
                let txt = unsafe { core::str::from_utf8_unchecked(&o.b[..o.n]) };
                assert!(RawBoard::from_str(txt) == Ok(raw));
                // and the mark, if any, is on the rank appropriate to the side to move
                if let Some(p) = raw.ep_source { assert!(p.index() / 8 == if raw.side == Color::White { 3 } else { 4 }); }
            }
            cover!(RawBoard::from_str(s).is_ok() && len > 30);
        }
    }
}
harness! {
    #[kani::unwind(10)]
    fn c08_cells_full_board_roundtrip() {
        // all 13^64 boards: format, compare with the reference encoder, parse back, read independently
        let raw = ab::any_raw();
        let cells = raw.cells;
        let mut o = Buf96 { b: [0; 96], n: 0 };
        assert!(write!(o, "{}", CellsFmt(&cells)).is_ok());
        let mut want = [0u8; 96];
        let n = ref_fen_cells(&cells, &mut want);
        assert!(o.n == n && n <= 71);
        let j = vk::any_u8() as usize; vk::assume(j < 71);
        if j < n { assert!(o.b[j] == want[j]); }
        let txt = unsafe { core::str::from_utf8_unchecked(&o.b[..o.n]) };
        match parse_cells(txt) {
            Ok(back) => { let w = ab::any_sq(); assert!(back[w as usize] == cells[w as usize]); }
            Err(_) => assert!(false, "own output must parse"),
        }
    }
}
