// extension of board_harness.rs: the from-scratch hash against a reference fold over plain copies
// of the key tables (halves the pointer-arithmetic lookups of the first formulation, which needed
// more than 10 GB)
include!("hmacros.rs");
use super::*;
use crate::verif_anyboard as ab;
use crate::verif_refspec as rs;
use crate::verif_shim as vk;

harness! {
    #[kani::unwind(66)]
    fn c05_zobrist_hash_is_the_definition() {
        let raw = ab::any_raw();
        let pk = crate::zobrist::verif_kani_b::piece_key_table();
        let ek = crate::zobrist::verif_kani_b::enpassant_key_table();
        let ck = crate::zobrist::verif_kani_b::castling_key_table();
        // definition: side key for White, key of the marked square, key of the rights set, key of
        // every occupied square - nothing else (in particular neither counter)
        let mut want = if raw.side == Color::White { zobrist::MOVE_SIDE } else { 0 };
        if let Some(p) = raw.ep_source { want ^= ek[p.index()]; }
        want ^= ck[raw.castling.index()];
        let mut r = 0;
        while r < 8 { let mut f = 0; while f < 8 {
            let c = rs::ci(raw.cells[r * 8 + f]) as usize;
            if c != 0 { want ^= pk[c][r * 8 + f]; }
            f += 1; } r += 1; }
        assert!(raw.zobrist_hash() == want);
        cover!(raw.ep_source.is_some());
    }
}
harness! {
    #[kani::unwind(10)]
    fn c05_ref_hash_is_the_definition() {
        // the helper the step obligations use as "from-scratch hash" is the same definition
        let raw = ab::any_raw();
        let pk = crate::zobrist::verif_kani_b::piece_key_table();
        let ek = crate::zobrist::verif_kani_b::enpassant_key_table();
        let ck = crate::zobrist::verif_kani_b::castling_key_table();
        let mut want = if raw.side == Color::White { zobrist::MOVE_SIDE } else { 0 };
        if let Some(p) = raw.ep_source { want ^= ek[p.index()]; }
        want ^= ck[raw.castling.index()];
        let mut r = 0;
        while r < 8 { let mut f = 0; while f < 8 {
            let c = rs::ci(raw.cells[r * 8 + f]) as usize;
            if c != 0 { want ^= pk[c][r * 8 + f]; }
            f += 1; } r += 1; }
        assert!(ab::ref_hash(&raw) == want);
    }
}
