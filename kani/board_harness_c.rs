// extension of board_harness.rs: the "result of validation" obligation with the from-scratch hash
// stated over plain copies of the key tables (one pointer-table evaluation instead of two)
include!("hmacros.rs");
use super::*;
use crate::verif_anyboard as ab;
use crate::verif_refspec as rs;
use crate::verif_shim as vk;

harness! {
    #[kani::unwind(66)]
    #[kani::stub(crate::attack::rook, crate::verif_anyboard::stub_rook)]
    #[kani::stub(crate::attack::bishop, crate::verif_anyboard::stub_bishop)]
    fn c11_try_from_result_normalised_wf_hashed() {
        let raw = ab::any_raw();
        let w = ab::any_sq();
        if let Ok(b) = Board::try_from(raw) {
            let n = rs::ref_normalise(&raw);
            // differs from the input only by the dropped rights / mark
            assert!(b.r.cells[w as usize] == raw.cells[w as usize]);
            assert!(b.r.side == raw.side && b.r.move_counter == raw.move_counter && b.r.move_number == raw.move_number);
            assert!(b.r.castling == n.castling && b.r.ep_source == n.ep_source);
            // derived sets: well-formed pointwise
            assert!(ab::wf_at(&b, w));
            // stored hash: the definition (== RawBoard::zobrist_hash by C05/scratch/zobrist-hash)
            let pk = crate::zobrist::verif_kani_b::piece_key_table();
            let ek = crate::zobrist::verif_kani_b::enpassant_key_table();
            let ck = crate::zobrist::verif_kani_b::castling_key_table();
            let mut want = if b.r.side == Color::White { zobrist::MOVE_SIDE } else { 0 };
            if let Some(p) = b.r.ep_source { want ^= ek[p.index()]; }
            want ^= ck[b.r.castling.index()];
            let mut r = 0;
            while r < 8 { let mut f = 0; while f < 8 {
                let c = rs::ci(b.r.cells[r * 8 + f]) as usize;
                if c != 0 { want ^= pk[c][r * 8 + f]; }
                f += 1; } r += 1; }
            assert!(b.hash == want);
            cover!(b.r.castling != raw.castling);
            cover!(b.r.ep_source != raw.ep_source);
            cover!(b.r.ep_source.is_some());
        }
    }
}
