// extension of board_harness.rs: the "result of validation" obligation with the from-scratch hash
// stated over plain copies of the key tables (one pointer-table evaluation instead of two)
include!("hmacros.rs");
use super::*;
use crate::verif_anyboard as ab;
use crate::verif_refspec as rs;
use crate::verif_shim as vk;

// contract of RawBoard::zobrist_hash imported here: a pure function of (cells, side, rights, mark).
// The stand-in is the projection onto an arbitrary witness square plus the three scalar fields, so
// "stored hash == stand-in(stored raw)" for every witness square says the real code evaluates the
// hash function on exactly the raw board it stores (parametricity in the callee); the callee itself
// is C05/scratch/zobrist-hash.
static mut HASH_WITNESS: usize = 0;
fn stub_zobrist_hash(r: &RawBoard) -> u64 {
    let w = unsafe { HASH_WITNESS };
    let ep = match r.ep_source { Some(p) => p.index() as u64 + 1, None => 0 };
    (rs::ci(r.cells[w]) as u64) | ((r.side as u64) << 8) | ((r.castling.index() as u64) << 16) | (ep << 24)
}

harness! {
    #[kani::unwind(66)]
    #[kani::stub(crate::attack::rook, crate::verif_anyboard::stub_rook)]
    #[kani::stub(crate::attack::bishop, crate::verif_anyboard::stub_bishop)]
    #[kani::stub(crate::board::RawBoard::zobrist_hash, stub_zobrist_hash)]
    fn c11_try_from_result_normalised_wf_hashed_v3() {
        let raw = ab::any_raw();
        let w = ab::any_sq();
        unsafe { HASH_WITNESS = w as usize; }
        if let Ok(b) = Board::try_from(raw) {
            let n = rs::ref_normalise(&raw);
            // differs from the input only by the dropped rights / mark
            assert!(b.r.cells[w as usize] == raw.cells[w as usize]);
            assert!(b.r.side == raw.side && b.r.move_counter == raw.move_counter && b.r.move_number == raw.move_number);
            assert!(b.r.castling == n.castling && b.r.ep_source == n.ep_source);
            // derived sets: well-formed pointwise
            assert!(ab::wf_at(&b, w));
            // stored hash: the hash function applied to the stored raw board
            assert!(b.hash == stub_zobrist_hash(&b.r));
            cover!(b.r.castling != raw.castling);
            cover!(b.r.ep_source != raw.ep_source);
            cover!(b.r.ep_source.is_some());
        }
    }
}

// ---- C11 acceptance, v2: the same two statements as board_harness.rs::c11_try_from_accepts_exactly_valid,
// one per harness, with RawBoard::zobrist_hash imported (the stored hash plays no part in acceptance;
// its 64 table lookups made the first form a 12-minute query) ----
fn error_holds(raw: &RawBoard, e: &ValidateError) -> bool {
    let white = raw.side == Color::White;
    match e {
        ValidateError::InvalidEnpassant(p) => raw.ep_source == Some(*p) && !rs::ref_ep_rank_ok(raw),
        ValidateError::TooManyPieces(c) => rs::count_colour(&raw.cells, *c == Color::White) > 16,
        ValidateError::NoKing(c) => rs::count_code(&raw.cells, rs::code(*c == Color::White, rs::KING)) == 0,
        ValidateError::TooManyKings(c) => rs::count_code(&raw.cells, rs::code(*c == Color::White, rs::KING)) > 1,
        ValidateError::InvalidPawn(p) => {
            let i = p.index(); let c = rs::ci(raw.cells[i]);
            (i < 8 || i >= 56) && (c == rs::code(true, rs::PAWN) || c == rs::code(false, rs::PAWN))
        }
        ValidateError::OpponentKingAttacked => rs::ref_attacked(&raw.cells, rs::king_sq(&raw.cells, !white), white),
    }
}
harness! {
    #[kani::unwind(66)]
    #[kani::stub(crate::attack::rook, crate::verif_anyboard::stub_rook)]
    #[kani::stub(crate::attack::bishop, crate::verif_anyboard::stub_bishop)]
    #[kani::stub(crate::board::RawBoard::zobrist_hash, stub_zobrist_hash)]
    fn c11_try_from_ok_iff_valid() {
        let raw = ab::any_raw();
        let res = Board::try_from(raw);
        assert!(res.is_ok() == rs::ref_valid(&raw));
        cover!(res.is_ok());
        cover!(matches!(res, Err(ValidateError::OpponentKingAttacked)));
    }
}
harness! {
    #[kani::unwind(66)]
    #[kani::stub(crate::attack::rook, crate::verif_anyboard::stub_rook)]
    #[kani::stub(crate::attack::bishop, crate::verif_anyboard::stub_bishop)]
    #[kani::stub(crate::board::RawBoard::zobrist_hash, stub_zobrist_hash)]
    fn c11_try_from_error_is_true() {
        let raw = ab::any_raw();
        let res = Board::try_from(raw);
        if let Err(e) = &res { assert!(error_holds(&raw, e)); }
        cover!(matches!(res, Err(ValidateError::InvalidPawn(_))));
        cover!(matches!(res, Err(ValidateError::TooManyKings(_))));
        cover!(matches!(res, Err(ValidateError::InvalidEnpassant(_))));
    }
}
