// extension of board_harness.rs: FEN record obligations with the right unwinding bounds and the
// cheap UTF-8 predicate
include!("hmacros.rs");
use super::verif_kani::Buf96;
use super::*;
use crate::verif_anyboard as ab;
use crate::verif_shim as vk;
use core::fmt::Write;

harness! {
    #[kani::unwind(45)]
    fn c08_record_tail_roundtrip_v2() {
        // the five fields after the board (board fixed to the empty one so that it constant-folds):
        // side, rights, en-passant target (mark on the rank appropriate to the side), both counters
        let side = ab::any_color();
        let cr = vk::any_u8(); vk::assume(cr < 16);
        let epf = vk::any_u8(); vk::assume(epf <= 8);
        let white = side == Color::White;
        let ep = if epf == 8 { None } else { Some(ab::coord((if white { 3 } else { 4 }) * 8 + epf)) };
        let raw = RawBoard { cells: [Cell::EMPTY; 64], side, castling: CastlingRights::from_index(cr as usize), ep_source: ep,
                             move_counter: vk::any_u16(), move_number: vk::any_u16() };
        let mut o = Buf96 { b: [0; 96], n: 0 };
        assert!(write!(o, "{}", raw).is_ok());
        // six space-separated fields, the board first
        let head = b"8/8/8/8/8/8/8/8 ";
        let mut i = 0; while i < 16 { assert!(o.b[i] == head[i]); i += 1; }
        assert!(o.b[16] == if white { b'w' } else { b'b' } && o.b[17] == b' ');
        assert!(o.n <= 40);
        let txt = unsafe { core::str::from_utf8_unchecked(&o.b[..o.n]) };
        match RawBoard::from_str(txt) {
            Ok(back) => assert!(back == raw),
            Err(_) => assert!(false, "own output must parse"),
        }
        // the en-passant field names the square BEHIND the marked pawn (rank 6 for White to move, 3 for Black)
        assert!(raw.ep_dest() == ep.map(|p| ab::coord(if white { p.index() as u8 - 8 } else { p.index() as u8 + 8 })));
        cover!(ep.is_some() && raw.move_number == 65535);
    }
}
harness! {
    #[kani::unwind(40)]
    fn c12_raw_from_str_tail_total_v2() {
        // the record after a fixed board field: ANY <= 12 further bytes
        let mut t = [0u8; 28];
        let head = b"8/8/8/8/8/8/8/8";
        let mut i = 0; while i < 15 { t[i] = head[i]; i += 1; }
        let mut i = 15; while i < 27 { t[i] = vk::any_u8(); i += 1; }
        let len = vk::any_u8() as usize; vk::assume(15 <= len && len <= 27);
        if crate::verif_textutil::valid_utf8(&t, len) {
            let s = crate::verif_textutil::as_str(&t, len);
            if let Ok(raw) = RawBoard::from_str(s) {
                // whatever was accepted formats to text that parses back to the same raw board
                let mut o = Buf96 { b: [0; 96], n: 0 };
                assert!(write!(o, "{}", raw).is_ok());
                let txt = unsafe { core::str::from_utf8_unchecked(&o.b[..o.n]) };
                assert!(RawBoard::from_str(txt) == Ok(raw));
                // and the mark, if any, is on the rank appropriate to the side to move
                if let Some(p) = raw.ep_source { assert!(p.index() / 8 == if raw.side == Color::White { 3 } else { 4 }); }
            }
            cover!(RawBoard::from_str(s).is_ok() && len > 24);
        }
    }
}
