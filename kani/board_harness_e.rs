// extension of board_harness.rs: the FEN board field with ONE symbolic rank in a CONSTANT row
// (the symbolic-row form needs > 40 min of symbolic execution): formatting against the reference
// run-length encoder, and parsing the reference text back.
include!("hmacros.rs");
use super::verif_kani::Buf96;
use super::*;
use crate::verif_anyboard as ab;
use crate::verif_refspec as rs;
use crate::verif_shim as vk;
use core::fmt::Write;

struct CellsFmt<'a>(&'a [Cell; 64]);
impl<'a> fmt::Display for CellsFmt<'a> {
    fn fmt(&self, f: &mut fmt::Formatter<'_>) -> fmt::Result { format_cells(self.0, f) }
}
const CELL_CHARS: &[u8; 13] = b".PKNBRQpknbrq";
/// reference text of a board whose only non-empty rank is `row`: "8/" x row, the rank, "/8" x (7-row)
fn ref_text(rank: &[u8; 8], row: usize, out: &mut [u8; 32]) -> usize {
    let mut n = 0;
    let mut r = 0;
    while r < 8 {
        if r != 0 { out[n] = b'/'; n += 1; }
        if r != row { out[n] = b'8'; n += 1; } else {
            let mut run = 0u8; let mut f = 0;
            while f < 8 {
                if rank[f] == 0 { run += 1; } else { if run != 0 { out[n] = b'0' + run; n += 1; run = 0; } out[n] = CELL_CHARS[rank[f] as usize]; n += 1; }
                f += 1;
            }
            if run != 0 { out[n] = b'0' + run; n += 1; }
        }
        r += 1;
    }
    n
}
macro_rules! c08_rank {
    ($fmt:ident, $parse:ident, $row:expr) => {
        harness! {
            #[kani::unwind(10)]
            fn $fmt() {
                let mut rank = [0u8; 8]; let mut cells = [Cell::EMPTY; 64];
                let mut f = 0; while f < 8 { rank[f] = vk::any_u8(); vk::assume(rank[f] < 13); cells[$row * 8 + f] = ab::cell(rank[f]); f += 1; }
                let mut o = Buf96 { b: [0; 96], n: 0 };
                assert!(write!(o, "{}", CellsFmt(&cells)).is_ok());
                let mut want = [0u8; 32];
                let n = ref_text(&rank, $row, &mut want);
                assert!(o.n == n);
                let j = vk::any_u8() as usize; vk::assume(j < 32);
                if j < n { assert!(o.b[j] == want[j]); }
                cover!(n == 22);
            }
        }
        harness! {
            #[kani::unwind(24)]
            fn $parse() {
                let mut rank = [0u8; 8];
                let mut f = 0; while f < 8 { rank[f] = vk::any_u8(); vk::assume(rank[f] < 13); f += 1; }
                let mut want = [0u8; 32];
                let n = ref_text(&rank, $row, &mut want);
                let txt = unsafe { core::str::from_utf8_unchecked(&want[..n]) };
                match parse_cells(txt) {
                    Ok(back) => { let w = ab::any_sq(); assert!(rs::ci(back[w as usize]) == if (w as usize) / 8 == $row { rank[(w % 8) as usize] } else { 0 }); }
                    Err(_) => assert!(false, "canonical board field must parse"),
                }
            }
        }
    };
}
c08_rank!(c08_fmt_rank_row0, c08_parse_rank_row0, 0);
c08_rank!(c08_fmt_rank_row3, c08_parse_rank_row3, 3);
c08_rank!(c08_fmt_rank_row7, c08_parse_rank_row7, 7);
