// extension of board_harness.rs: the five trailing FEN fields by exhaustive native evaluation.
// Symbolic strings of ~40 bytes through split / from_str cost CBMC more than 40 minutes of symbolic
// execution, but the value domain is small: side (2) x rights (16) x en-passant mark (8 files or
// none) x counters; every counter value is enumerated once per field combination.
include!("hmacros.rs");
use super::*;

#[cfg(not(kani))]
#[test]
fn n08_record_tail_all_values() {
    let mut n = 0u64;
    let mut check = |raw: &RawBoard| {
        let txt = raw.to_string();
        // reference text, written independently
        let white = raw.side == Color::White;
        let mut want = String::from("8/8/8/8/8/8/8/8 ");
        want.push(if white { 'w' } else { 'b' });
        want.push(' ');
        let c = raw.castling;
        let mut any = false;
        for (col, s, ch) in [(Color::White, CastlingSide::King, 'K'), (Color::White, CastlingSide::Queen, 'Q'), (Color::Black, CastlingSide::King, 'k'), (Color::Black, CastlingSide::Queen, 'q')] {
            if c.has(col, s) { want.push(ch); any = true; }
        }
        if !any { want.push('-'); }
        want.push(' ');
        match raw.ep_source {
            None => want.push('-'),
            // the target square is BEHIND the marked pawn: sixth rank for White to move, third for Black
            Some(p) => { want.push((b'a' + (p.index() % 8) as u8) as char); want.push(if white { '6' } else { '3' }); }
        }
        want.push_str(&format!(" {} {}", raw.move_counter, raw.move_number));
        let back = RawBoard::from_str(&txt);
        if txt != want || back.as_ref().ok() != Some(raw) {
            eprintln!("REPLAY-INPUT: raw board side={:?} castling={:?} ep_source={:?} counters={} {} formats to {:?} (expected {:?}) and parses back to {:?}",
                raw.side, raw.castling, raw.ep_source, raw.move_counter, raw.move_number, txt, want, back);
            panic!("FEN record round trip");
        }
    };
    for side in [Color::White, Color::Black] {
        for cr in 0..16usize {
            for epf in 0..9usize {
                let ep = if epf == 8 { None } else { Some(Coord::from_index((if side == Color::White { 3 } else { 4 }) * 8 + epf)) };
                let base = RawBoard { cells: [Cell::EMPTY; 64], side, castling: CastlingRights::from_index(cr), ep_source: ep, move_counter: 0, move_number: 1 };
                for v in 0..=u16::MAX {
                    let mut r = base; r.move_counter = v; check(&r); n += 1;
                    let mut r = base; r.move_number = v; check(&r); n += 1;
                }
                for a in [0u16, 1, 9, 10, 99, 100, 149, 150, 65535] { for b in [0u16, 1, 9, 10, 99, 100, 149, 150, 65535] {
                    let mut r = base; r.move_counter = a; r.move_number = b; check(&r); n += 1;
                } }
            }
        }
    }
    eprintln!("EVALUATIONS: {}", n);
}

// The text direction of the record tail: every record built from a finite token grammar. Accepted
// text must be stable under parse -> format -> parse; nothing may panic.
#[cfg(not(kani))]
#[test]
fn n08_record_tail_text_grammar() {
    let sides = ["w", "b", "W", "x", ""];
    let rights = ["-", "K", "Q", "k", "q", "KQ", "Kk", "Kq", "Qk", "Qq", "kq", "KQk", "KQq", "Kkq", "Qkq", "KQkq",
                  "QK", "qk", "KK", "kK", "KQkqK", "--", "A", ""];
    let mut marks: Vec<String> = Vec::new();
    for f in b'a'..=b'h' { for r in b'1'..=b'8' { marks.push(format!("{}{}", f as char, r as char)); } }
    for m in ["-", "a", "a9", "i3", "e33", ""] { marks.push(m.to_string()); }
    let nums = ["0", "1", "9", "100", "65535", "65536", "+5", "-1", "007"];
    let board = "8/8/8/8/8/8/8/8";
    let mut n = 0u64;
    let mut accepted = 0u64;
    let mut check = |txt: &str| {
        n += 1;
        if let Ok(v) = RawBoard::from_str(txt) {
            accepted += 1;
            let again = v.to_string();
            let back = RawBoard::from_str(&again);
            if back.as_ref().ok() != Some(&v) {
                eprintln!("REPLAY-INPUT: text {:?} parses to side={:?} castling={:?} ep_source={:?} counters={} {}, which formats to {:?}, which parses to {:?}",
                    txt, v.side, v.castling, v.ep_source, v.move_counter, v.move_number, again, back);
                panic!("FEN record parse-format-parse");
            }
        }
    };
    for s in sides { for c in rights { for m in &marks { for a in nums { for b in nums {
        check(&format!("{} {} {} {} {} {}", board, s, c, m, a, b));
    } } } } }
    // records cut after each field, doubled and trailing separators
    for s in sides { for c in rights { for m in &marks {
        check(&format!("{} {} {} {}", board, s, c, m));
        check(&format!("{} {} {} {} 5", board, s, c, m));
        check(&format!("{} {} {} {} ", board, s, c, m));
        check(&format!("{}  {} {} {} 0 1", board, s, c, m));
        check(&format!("{} {} {} {} 0 1 ", board, s, c, m));
        check(&format!("{} {} {} {} 0 1 x", board, s, c, m));
    } } }
    for s in sides { for c in rights { check(&format!("{} {} {}", board, s, c)); } check(&format!("{} {}", board, s)); }
    check(board); check("");
    assert!(accepted > 1000);
    eprintln!("EVALUATIONS: {}", n);
}

// The board field as text: records whose first field is built from rank tokens (1..=10 ranks, all
// "8" except two positions taking every pair of tokens). Nothing may panic; accepted text must be
// stable under parse -> format -> parse.
#[cfg(not(kani))]
#[test]
fn n12_board_field_text_grammar() {
    let toks = ["8", "7p", "p7", "44", "9", "1p6", "pppppppp", "ppppppppp", "4P3", "", "k", "0", "-", "p.6", "PNBRQKpn", "11111111", "x7", "p8"];
    let mut n = 0u64;
    let mut accepted = 0u64;
    for nr in 1..=10usize {
        for i in 0..nr { for j in i..nr { for a in toks { for b in toks {
            if i == j && a != b { continue; }
            let mut ranks = vec!["8"; nr];
            ranks[i] = a; ranks[j] = b;
            for tail in [" w - - 0 1", "", " b KQkq - 3 7"] {
                let txt = format!("{}{}", ranks.join("/"), tail);
                n += 1;
                if let Ok(v) = RawBoard::from_str(&txt) {
                    accepted += 1;
                    let again = v.to_string();
                    let back = RawBoard::from_str(&again);
                    if back.as_ref().ok() != Some(&v) {
                        eprintln!("REPLAY-INPUT: text {:?} is accepted, formats to {:?}, which parses to {:?}", txt, again, back);
                        panic!("FEN board field parse-format-parse");
                    }
                }
            }
        } } } }
    }
    assert!(accepted > 100);
    eprintln!("EVALUATIONS: {}", n);
}
