// extension of board_harness.rs: the SHAPE of RawBoard::zobrist_hash with the three key accessors
// imported by contract (pure functions of their arguments, instantiated with witness projections):
// the result is the XOR of the side key (White only), the mark key of the marked square, the rights
// key of the rights set and, for every occupied square, the piece key of (its cell, that square) -
// and of nothing else.  Quick-tier form of C05/scratch/zobrist-hash (which compares with the fold
// over the real key tables for all boards and needs more than twenty minutes).
include!("hmacros.rs");
use super::*;
use crate::verif_anyboard as ab;
use crate::verif_refspec as rs;
use crate::verif_shim as vk;

static mut W: usize = 0;
fn stub_pieces(cell: Cell, coord: Coord) -> u64 { if coord.index() == unsafe { W } { 0x1000 + cell.index() as u64 } else { 0 } }
fn stub_enpassant(coord: Coord) -> u64 { (coord.index() as u64 + 1) << 20 }
fn stub_castling(rights: CastlingRights) -> u64 { (rights.index() as u64 + 1) << 40 }

harness! {
    #[kani::unwind(66)]
    #[kani::stub(crate::zobrist::pieces, stub_pieces)]
    #[kani::stub(crate::zobrist::enpassant, stub_enpassant)]
    #[kani::stub(crate::zobrist::castling, stub_castling)]
    fn c05_zobrist_hash_fold_shape() {
        let raw = ab::any_raw();
        let w = ab::any_sq() as usize;
        unsafe { W = w; }
        let mut want = if raw.side == Color::White { zobrist::MOVE_SIDE } else { 0 };
        if let Some(p) = raw.ep_source { want ^= stub_enpassant(p); }
        want ^= stub_castling(raw.castling);
        if rs::ci(raw.cells[w]) != 0 { want ^= 0x1000 + rs::ci(raw.cells[w]) as u64; }
        assert!(raw.zobrist_hash() == want);
        // both counters are ignored
        let mut other = raw;
        other.move_counter = vk::any_u16(); other.move_number = vk::any_u16();
        assert!(other.zobrist_hash() == raw.zobrist_hash());
        cover!(raw.ep_source.is_some() && rs::ci(raw.cells[w]) != 0);
        cover!(rs::ci(raw.cells[w]) == 0);
    }
}
