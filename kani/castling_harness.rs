// C15/C03 helpers: castling masks against board geometry.
include!("hmacros.rs");
use super::*;
use crate::verif_refspec as rs;
use crate::verif_shim as vk;

harness! {
    fn c15_castling_masks() {
        let white = vk::any_bool();
        let c = if white { Color::White } else { Color::Black };
        let hr = rs::home_rank(white) as u8 * 8;
        // squares that must be empty between king (e) and rook (h / a)
        assert!(pass(c, CastlingSide::King).as_raw() == rs::bit(hr + 5) | rs::bit(hr + 6));
        assert!(pass(c, CastlingSide::Queen).as_raw() == rs::bit(hr + 1) | rs::bit(hr + 2) | rs::bit(hr + 3));
        // home squares of king and rook
        assert!(srcs(c, CastlingSide::King).as_raw() == rs::bit(hr + 4) | rs::bit(hr + 7));
        assert!(srcs(c, CastlingSide::Queen).as_raw() == rs::bit(hr + 4) | rs::bit(hr));
        assert!(offset(c) == hr as usize);
        assert!(ALL_SRCS.as_raw() == rs::bit(0) | rs::bit(4) | rs::bit(7) | rs::bit(56) | rs::bit(60) | rs::bit(63));
        assert!(<crate::generic::White as crate::generic::Color>::CASTLING_OFFSET == 56
            && <crate::generic::Black as crate::generic::Color>::CASTLING_OFFSET == 0);
    }
}
