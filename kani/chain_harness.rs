// C13 (equality), C17 (walker, bounded stand-in for the op-sequence quantifier; the unbounded
// statement is Layer V walker.vspec), C14 (HashRepeat) - child of chess/src/chain.rs
include!("hmacros.rs");
use super::*;
use crate::moves::MoveKind;
use crate::types::{Cell, Coord, Piece, WinReason};
use crate::verif_anyboard as ab;
use crate::verif_refspec as rs;
use crate::verif_shim as vk;

#[derive(Default)]
pub struct NoRepeat;
impl Repeat for NoRepeat {
    fn push(&mut self, _b: &Board) {}
    fn pop(&mut self, _b: &Board) {}
    fn count(&self, _b: &Board) -> usize { 0 }
}

fn any_outcome() -> Option<Outcome> {
    match vk::any_u8() % 5 {
        0 => None,
        1 => Some(Outcome::Draw(DrawReason::Stalemate)),
        2 => Some(Outcome::Draw(DrawReason::Repeat3)),
        3 => Some(Outcome::Win { side: Color::White, reason: WinReason::Checkmate }),
        _ => Some(Outcome::Win { side: Color::Black, reason: WinReason::Resign }),
    }
}
fn any_move() -> Move {
    let k = vk::any_u8(); vk::assume(k < 10);
    let c = vk::any_u8(); vk::assume(c < 13);
    unsafe { Move::new_unchecked(rs::mk_kind(k), ab::cell(c), ab::coord(ab::any_sq()), ab::coord(ab::any_sq())) }
}
fn any_chain_shell(board: &Board) -> (BaseMoveChain<NoRepeat>, usize) {
    // a chain value with arbitrary start, arbitrary recorded moves (<= 3) and arbitrary stored
    // outcome; equality reads nothing else
    let n = vk::any_u8() as usize; vk::assume(n <= 3);
    let mut stack: Vec<(Move, RawUndo)> = Vec::new();
    let mut i = 0;
    while i < 3 { if i < n { stack.push((any_move(), unsafe { core::mem::zeroed::<RawUndo>() })); } i += 1; }
    (BaseMoveChain { start: ab::any_raw(), board: board.clone(), repeat: NoRepeat, stack, outcome: any_outcome() }, n)
}
harness! {
    #[kani::unwind(10)]
    fn c13_chain_equality() {
        let board = Board::initial();
        let (a, na) = any_chain_shell(&board);
        let (b, nb) = any_chain_shell(&board);
        let mut same_moves = na == nb;
        let mut i = 0;
        while i < 3 { if i < na && i < nb && a.stack[i].0 != b.stack[i].0 { same_moves = false; } i += 1; }
        let want = a.start == b.start && same_moves && a.outcome == b.outcome;
        assert!((a == b) == want);
        assert!(a == a);
        cover!(want && na == 3);
        cover!(!want && a.start == b.start && a.outcome == b.outcome && na == nb);
    }
}

// ---- walker over a fixed 4-ply game, every operation sequence of length 5 ----------------------
fn mk(kind: MoveKind, cell: Cell, s: usize, d: usize) -> Move { Move::new(kind, cell, Coord::from_index(s), Coord::from_index(d)).unwrap() }
harness! {
    #[kani::unwind(70)]
    fn c17_walker_op_sequences_fixed_game() {
        let wp = Cell::from_parts(Color::White, Piece::Pawn); let bp = Cell::from_parts(Color::Black, Piece::Pawn);
        let wn = Cell::from_parts(Color::White, Piece::Knight); let bn = Cell::from_parts(Color::Black, Piece::Knight);
        // 1. e4 e5 2. Nf3 Nc6
        let game = [mk(MoveKind::PawnDouble, wp, 52, 36), mk(MoveKind::PawnDouble, bp, 12, 28), mk(MoveKind::Simple, wn, 62, 45), mk(MoveKind::Simple, bn, 1, 18)];
        let mut chain = BaseMoveChain::<NoRepeat>::new(Board::initial());
        let mut before = [Board::initial(), Board::initial(), Board::initial(), Board::initial()];
        let mut i = 0;
        while i < 4 { before[i] = chain.last().clone(); assert!(chain.push(game[i]).is_ok()); i += 1; }
        let final_raw = chain.last().r;
        let mut w = chain.walk();
        let mut pos: usize = 0;
        let mut step = 0;
        while step < 5 {
            match vk::any_u8() % 4 {
                0 => match w.next() {
                    Some((b, m)) => { assert!(pos < 4 && m == game[pos]); assert!(b.r == before[pos].r && b.hash == before[pos].hash && b.all == before[pos].all); pos += 1; }
                    None => assert!(pos == 4),
                },
                1 => match w.prev() {
                    Some((b, m)) => { assert!(pos > 0 && m == game[pos - 1]); assert!(b.r == before[pos - 1].r && b.hash == before[pos - 1].hash && b.all == before[pos - 1].all); pos -= 1; }
                    None => assert!(pos == 0),
                },
                2 => { w.start(); pos = 0; }
                _ => { w.end(); pos = 4; }
            }
            assert!(w.pos() == pos && w.len() == 4);
            step += 1;
        }
        // the chain itself is untouched
        assert!(chain.last().r == final_raw && chain.len() == 4);
    }
}

// ---- C14: HashRepeat is a multiset of hashes (bounded: 4 operations over 2 boards) ------------
