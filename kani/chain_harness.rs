// C13 (equality), C17 (walker, bounded stand-in for the op-sequence quantifier; the unbounded
// statement is Layer V walker.vspec), C14 (HashRepeat) - child of chess/src/chain.rs
include!("hmacros.rs");
use super::*;
use crate::moves::MoveKind;
use crate::types::{Cell, Coord, Piece, WinReason};
use crate::verif_anyboard as ab;
use crate::verif_refspec as rs;
use crate::verif_shim as vk;

#[derive(Default)]
pub struct NoRepeat;
impl Repeat for NoRepeat {
    fn push(&mut self, _b: &Board) {}
    fn pop(&mut self, _b: &Board) {}
    fn count(&self, _b: &Board) -> usize { 0 }
}

fn any_outcome() -> Option<Outcome> {
    match vk::any_u8() % 5 {
        0 => None,
        1 => Some(Outcome::Draw(DrawReason::Stalemate)),
        2 => Some(Outcome::Draw(DrawReason::Repeat3)),
        3 => Some(Outcome::Win { side: Color::White, reason: WinReason::Checkmate }),
        _ => Some(Outcome::Win { side: Color::Black, reason: WinReason::Resign }),
    }
}
fn any_move() -> Move {
    let k = vk::any_u8(); vk::assume(k < 10);
    let c = vk::any_u8(); vk::assume(c < 13);
    unsafe { Move::new_unchecked(rs::mk_kind(k), ab::cell(c), ab::coord(ab::any_sq()), ab::coord(ab::any_sq())) }
}
fn any_chain_shell(board: &Board) -> (BaseMoveChain<NoRepeat>, usize) {
    // a chain value with arbitrary start, arbitrary recorded moves (<= 3) and arbitrary stored
    // outcome; equality reads nothing else
    let n = vk::any_u8() as usize; vk::assume(n <= 3);
    let mut stack: Vec<(Move, RawUndo)> = Vec::new();
    let mut i = 0;
    while i < 3 { if i < n { stack.push((any_move(), unsafe { core::mem::zeroed::<RawUndo>() })); } i += 1; }
    (BaseMoveChain { start: ab::any_raw(), board: board.clone(), repeat: NoRepeat, stack, outcome: any_outcome() }, n)
}
harness! {
    #[kani::unwind(10)]
    fn c13_chain_equality() {
        let board = Board::initial();
        let (a, na) = any_chain_shell(&board);
        let (b, nb) = any_chain_shell(&board);
        let mut same_moves = na == nb;
        let mut i = 0;
        while i < 3 { if i < na && i < nb && a.stack[i].0 != b.stack[i].0 { same_moves = false; } i += 1; }
        let want = a.start == b.start && same_moves && a.outcome == b.outcome;
        assert!((a == b) == want);
        assert!(a == a);
        cover!(want && na == 3);
        cover!(!want && a.start == b.start && a.outcome == b.outcome && na == nb);
    }
}

// ---- walker over a fixed 4-ply game, every operation sequence of length 5 ----------------------
fn mk(kind: MoveKind, cell: Cell, s: usize, d: usize) -> Move { Move::new(kind, cell, Coord::from_index(s), Coord::from_index(d)).unwrap() }
harness! {
    #[kani::unwind(70)]
    fn c17_walker_op_sequences_fixed_game() {
        let wp = Cell::from_parts(Color::White, Piece::Pawn); let bp = Cell::from_parts(Color::Black, Piece::Pawn);
        let wn = Cell::from_parts(Color::White, Piece::Knight); let bn = Cell::from_parts(Color::Black, Piece::Knight);
        // 1. e4 e5 2. Nf3 Nc6
        let game = [mk(MoveKind::PawnDouble, wp, 52, 36), mk(MoveKind::PawnDouble, bp, 12, 28), mk(MoveKind::Simple, wn, 62, 45), mk(MoveKind::Simple, bn, 1, 18)];
        let mut chain = BaseMoveChain::<NoRepeat>::new(Board::initial());
        let mut before = [Board::initial(), Board::initial(), Board::initial(), Board::initial()];
        let mut i = 0;
        while i < 4 { before[i] = chain.last().clone(); assert!(chain.push(game[i]).is_ok()); i += 1; }
        let final_raw = chain.last().r;
        let mut w = chain.walk();
        let mut pos: usize = 0;
        let mut step = 0;
        while step < 5 {
            match vk::any_u8() % 4 {
                0 => match w.next() {
                    Some((b, m)) => { assert!(pos < 4 && m == game[pos]); assert!(b.r == before[pos].r && b.hash == before[pos].hash && b.all == before[pos].all); pos += 1; }
                    None => assert!(pos == 4),
                },
                1 => match w.prev() {
                    Some((b, m)) => { assert!(pos > 0 && m == game[pos - 1]); assert!(b.r == before[pos - 1].r && b.hash == before[pos - 1].hash && b.all == before[pos - 1].all); pos -= 1; }
                    None => assert!(pos == 0),
                },
                2 => { w.start(); pos = 0; }
                _ => { w.end(); pos = 4; }
            }
            assert!(w.pos() == pos && w.len() == 4);
            step += 1;
        }
        // the chain itself is untouched
        assert!(chain.last().r == final_raw && chain.len() == 4);
    }
}

// ---- C14: HashRepeat is a multiset of hashes (bounded: 4 operations over 2 boards) ------------
use core::fmt::Write;
pub struct Buf64 { pub b: [u8; 64], pub n: usize }
impl core::fmt::Write for Buf64 {
    fn write_str(&mut self, s: &str) -> core::fmt::Result {
        for &c in s.as_bytes() { if self.n >= 64 { return Err(core::fmt::Error); } self.b[self.n] = c; self.n += 1; }
        Ok(())
    }
}
fn status_token(o: Option<Outcome>) -> &'static [u8] {
    match o { None => b"*", Some(Outcome::Draw(_)) => b"1/2-1/2", Some(Outcome::Win { side: Color::White, .. }) => b"1-0", Some(Outcome::Win { side: Color::Black, .. }) => b"0-1" }
}

// ---- C17: the styled list of an EMPTY chain: every number policy, style, status policy, outcome ----
harness! {
    #[kani::unwind(10)]
    fn c17_styled_list_empty_chain() {
        let mut chain = BaseMoveChain::<NoRepeat>::new(Board::initial());
        let outcome = any_outcome();
        chain.reset_outcome(outcome);
        let nums = match vk::any_u8() % 3 { 0 => NumberPolicy::Omit, 1 => NumberPolicy::FromBoard, _ => NumberPolicy::Custom(vk::any_u16() as usize) };
        let style = match vk::any_u8() % 3 { 0 => moves::Style::San, 1 => moves::Style::SanUtf8, _ => moves::Style::Uci };
        let show = vk::any_bool();
        let mut o = Buf64 { b: [0; 64], n: 0 };
        assert!(write!(o, "{}", chain.styled(nums, style, if show { GameStatusPolicy::Show } else { GameStatusPolicy::Hide })).is_ok());
        // no moves: the text is the status token alone (matching the STORED outcome), or nothing
        let want: &[u8] = if show { status_token(outcome) } else { b"" };
        assert!(o.n == want.len());
        let mut i = 0; while i < 7 { if i < want.len() { assert!(o.b[i] == want[i]); } i += 1; }
        let mut u = Buf64 { b: [0; 64], n: 0 };
        assert!(write!(u, "{}", chain.uci()).is_ok() && u.n == 0);
    }
}

// ---- C17: the styled list and the UCI list of one fixed game starting with Black to move --------
harness! {
    #[kani::unwind(70)]
    fn c17_lists_fixed_game() {
        // start: after 1. e4 (Black to move, move number 1); game: 1... e5 2. Nf3 Nc6
        let mut start = Board::initial();
        let wp = Cell::from_parts(Color::White, Piece::Pawn); let bp = Cell::from_parts(Color::Black, Piece::Pawn);
        let wn = Cell::from_parts(Color::White, Piece::Knight); let bn = Cell::from_parts(Color::Black, Piece::Knight);
        start = start.make_move(mk(MoveKind::PawnDouble, wp, 52, 36)).unwrap();
        let game = [mk(MoveKind::PawnDouble, bp, 12, 28), mk(MoveKind::Simple, wn, 62, 45), mk(MoveKind::Simple, bn, 1, 18)];
        let mut chain = BaseMoveChain::<NoRepeat>::new(start.clone());
        let mut i = 0; while i < 3 { assert!(chain.push(game[i]).is_ok()); i += 1; }
        let outcome = any_outcome();
        chain.reset_outcome(outcome);
        let custom = vk::any_u8() as usize;
        let nums = match vk::any_u8() % 3 { 0 => NumberPolicy::Omit, 1 => NumberPolicy::FromBoard, _ => NumberPolicy::Custom(custom) };
        let show = vk::any_bool();
        let mut o = Buf64 { b: [0; 64], n: 0 };
        assert!(write!(o, "{}", chain.styled(nums, moves::Style::San, if show { GameStatusPolicy::Show } else { GameStatusPolicy::Hide })).is_ok());
        // reference text
        let mut w = Buf64 { b: [0; 64], n: 0 };
        let first = match nums { NumberPolicy::Omit => None, NumberPolicy::FromBoard => Some(1usize), NumberPolicy::Custom(c) => Some(c) };
        if let Some(nn) = first { let _ = write!(w, "{}... ", nn); }
        let _ = w.write_str("e5");
        if let Some(nn) = first { let _ = write!(w, " {}.", nn + 1); }
        let _ = w.write_str(" Nf3 Nc6");
        if show { let _ = w.write_str(" "); let _ = w.write_str(unsafe { core::str::from_utf8_unchecked(status_token(outcome)) }); }
        assert!(o.n == w.n);
        let mut i = 0; while i < 40 { if i < w.n { assert!(o.b[i] == w.b[i]); } i += 1; }
        // UCI list: moves in order, single spaces; replaying it from the start rebuilds an equal chain
        let mut u = Buf64 { b: [0; 64], n: 0 };
        assert!(write!(u, "{}", chain.uci()).is_ok());
        let want = b"e7e5 g1f3 b8c6";
        assert!(u.n == want.len());
        let mut i = 0; while i < 14 { assert!(u.b[i] == want[i]); i += 1; }
        let mut again = BaseMoveChain::<NoRepeat>::from_uci_list(start, unsafe { core::str::from_utf8_unchecked(&u.b[..u.n]) }).unwrap();
        again.reset_outcome(outcome);
        assert!(again == chain && again.last().r == chain.last().r);
    }
}
