// extension of chain_harness.rs: C12 totality of the UCI move list entry point
include!("hmacros.rs");
use super::verif_kani::NoRepeat;
use super::*;
use crate::verif_shim as vk;

harness! {
    #[kani::unwind(70)]
    fn c12_push_uci_list_total_len6() {
        // every UTF-8 string of <= 6 bytes pushed onto the initial position: a value or an error,
        // never a panic; on Ok exactly the tokens were applied, on Err the error names the failing
        // token and nothing after it was applied
        let mut b = [0u8; 6];
        for i in 0..6 { b[i] = vk::any_u8(); }
        let len = vk::any_u8() as usize; vk::assume(len <= 6);
        if let Ok(s) = core::str::from_utf8(&b[..len]) {
            let mut chain = BaseMoveChain::<NoRepeat>::new(Board::initial());
            let start = chain.last().r;
            // tokens = maximal runs of non-ASCII-whitespace bytes
            let mut tokens = 0usize; let mut in_tok = false;
            for i in 0..6 { if i < len {
                let ws = matches!(b[i], b' ' | b'\t' | b'\n' | 0x0c | b'\r');
                if !ws && !in_tok { tokens += 1; }
                in_tok = !ws;
            } }
            match chain.push_uci_list(s) {
                Ok(()) => { assert!(chain.len() == tokens && tokens <= 1); if tokens == 0 { assert!(chain.last().r == start); } }
                Err(e) => { assert!(e.pos < tokens); assert!(chain.len() == e.pos); if e.pos == 0 { assert!(chain.last().r == start); } }
            }
            cover!(chain.len() == 1);
            cover!(tokens == 2);
        }
    }
}
