// extension of chain_harness.rs: chain equality with a cheap arbitrary live board (the first
// version built Board::initial(), whose loops exceed the harness's unwinding bound)
include!("hmacros.rs");
use super::verif_kani::NoRepeat;
use super::*;
use crate::types::WinReason;
use crate::verif_anyboard as ab;
use crate::verif_refspec as rs;
use crate::verif_shim as vk;

fn any_outcome() -> Option<Outcome> {
    match vk::any_u8() % 5 {
        0 => None,
        1 => Some(Outcome::Draw(DrawReason::Stalemate)),
        2 => Some(Outcome::Draw(DrawReason::Repeat3)),
        3 => Some(Outcome::Win { side: Color::White, reason: WinReason::Checkmate }),
        _ => Some(Outcome::Win { side: Color::Black, reason: WinReason::Resign }),
    }
}
fn any_move() -> Move {
    let k = vk::any_u8(); vk::assume(k < 10);
    let c = vk::any_u8(); vk::assume(c < 13);
    unsafe { Move::new_unchecked(rs::mk_kind(k), ab::cell(c), ab::coord(ab::any_sq()), ab::coord(ab::any_sq())) }
}
fn any_chain_shell() -> (BaseMoveChain<NoRepeat>, usize) {
    // a chain value with arbitrary start, arbitrary live board, arbitrary recorded moves (<= 3) and
    // arbitrary stored outcome
    let n = vk::any_u8() as usize; vk::assume(n <= 3);
    let mut stack: Vec<(Move, RawUndo)> = Vec::new();
    let mut i = 0;
    while i < 3 { if i < n { stack.push((any_move(), unsafe { core::mem::zeroed::<RawUndo>() })); } i += 1; }
    (BaseMoveChain { start: ab::any_raw(), board: ab::any_board(), repeat: NoRepeat, stack, outcome: any_outcome() }, n)
}
harness! {
    #[kani::unwind(14)]
    fn c13_chain_equality_v2() {
        let (a, na) = any_chain_shell();
        let (b, nb) = any_chain_shell();
        let mut same_moves = na == nb;
        let mut i = 0;
        while i < 3 { if i < na && i < nb && a.stack[i].0 != b.stack[i].0 { same_moves = false; } i += 1; }
        let want = a.start == b.start && same_moves && a.outcome == b.outcome;
        assert!((a == b) == want);
        assert!(a == a);
        cover!(want && na == 3);
        cover!(!want && a.start == b.start && a.outcome == b.outcome && na == nb);
        cover!(want && a.board.r != b.board.r);
    }
}
