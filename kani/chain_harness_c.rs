// extension of chain_harness.rs: chain equality with a cheap arbitrary live board (the first
// version built Board::initial(), whose loops exceed the harness's unwinding bound)
include!("hmacros.rs");
use super::verif_kani::NoRepeat;
use super::*;
use crate::types::WinReason;
use crate::verif_anyboard as ab;
use crate::verif_refspec as rs;
use crate::verif_shim as vk;

fn any_outcome() -> Option<Outcome> {
    match vk::any_u8() % 5 {
        0 => None,
        1 => Some(Outcome::Draw(DrawReason::Stalemate)),
        2 => Some(Outcome::Draw(DrawReason::Repeat3)),
        3 => Some(Outcome::Win { side: Color::White, reason: WinReason::Checkmate }),
        _ => Some(Outcome::Win { side: Color::Black, reason: WinReason::Resign }),
    }
}
fn any_move() -> Move {
    let k = vk::any_u8(); vk::assume(k < 10);
    let c = vk::any_u8(); vk::assume(c < 13);
    unsafe { Move::new_unchecked(rs::mk_kind(k), ab::cell(c), ab::coord(ab::any_sq()), ab::coord(ab::any_sq())) }
}
fn any_chain_shell() -> (BaseMoveChain<NoRepeat>, usize) {
    // a chain value with arbitrary start, arbitrary live board, arbitrary recorded moves (<= 3) and
    // arbitrary stored outcome
    let n = vk::any_u8() as usize; vk::assume(n <= 3);
    let mut stack: Vec<(Move, RawUndo)> = Vec::new();
    let mut i = 0;
    while i < 3 { if i < n { stack.push((any_move(), unsafe { core::mem::zeroed::<RawUndo>() })); } i += 1; }
    (BaseMoveChain { start: ab::any_raw(), board: ab::any_board(), repeat: NoRepeat, stack, outcome: any_outcome() }, n)
}
harness! {
    #[kani::unwind(66)]
    fn c13_chain_equality_v2() {
        let (a, na) = any_chain_shell();
        let (b, nb) = any_chain_shell();
        let mut same_moves = na == nb;
        let mut i = 0;
        while i < 3 { if i < na && i < nb && a.stack[i].0 != b.stack[i].0 { same_moves = false; } i += 1; }
        let want = a.start == b.start && same_moves && a.outcome == b.outcome;
        assert!((a == b) == want);
        assert!(a == a);
        cover!(want && na == 3);
        cover!(!want && a.start == b.start && a.outcome == b.outcome && na == nb);
        cover!(want && a.board.r != b.board.r);
    }
}

// ---- C17: the styled list of an EMPTY chain over an arbitrary live board: every number policy,
// style, status policy and stored outcome (v2: the first version built Board::initial() under an
// unwinding bound of 10) ----
use super::verif_kani::Buf64;
use core::fmt::Write as _;
fn status_token(o: Option<Outcome>) -> &'static [u8] {
    match o { None => b"*", Some(Outcome::Draw(_)) => b"1/2-1/2", Some(Outcome::Win { side: Color::White, .. }) => b"1-0", Some(Outcome::Win { side: Color::Black, .. }) => b"0-1" }
}
harness! {
    #[kani::unwind(14)]
    fn c17_styled_list_empty_chain_v2() {
        let outcome = any_outcome();
        let chain = BaseMoveChain::<NoRepeat> { start: ab::any_raw(), board: ab::any_board(), repeat: NoRepeat, stack: Vec::new(), outcome };
        let nums = match vk::any_u8() % 3 { 0 => NumberPolicy::Omit, 1 => NumberPolicy::FromBoard, _ => NumberPolicy::Custom(vk::any_u16() as usize) };
        let style = match vk::any_u8() % 3 { 0 => moves::Style::San, 1 => moves::Style::SanUtf8, _ => moves::Style::Uci };
        let show = vk::any_bool();
        let mut o = Buf64 { b: [0; 64], n: 0 };
        assert!(write!(o, "{}", chain.styled(nums, style, if show { GameStatusPolicy::Show } else { GameStatusPolicy::Hide })).is_ok());
        // no moves: the text is the status token alone (matching the STORED outcome), or nothing
        let want: &[u8] = if show { status_token(outcome) } else { b"" };
        assert!(o.n == want.len());
        let mut i = 0; while i < 7 { if i < want.len() { assert!(o.b[i] == want[i]); } i += 1; }
        let mut u = Buf64 { b: [0; 64], n: 0 };
        assert!(write!(u, "{}", chain.uci()).is_ok() && u.n == 0);
        cover!(show && o.n == 7);
        cover!(!show);
    }
}
