// extension of chain_harness.rs: bounded stand-ins for C17 by exhaustive NATIVE evaluation on a set
// of fixed games (the Kani forms of these two obligations need > 35 min and > 16 GB each: thorough).
// The unbounded statement about the walker is the Verus obligation C17/walker/verus.
include!("hmacros.rs");
use super::verif_kani::NoRepeat;
use super::*;
use crate::types::WinReason;

#[cfg(not(kani))]
const GAMES: &[(&str, &str)] = &[
    // (start FEN, UCI moves): White start; Black start; castling both sides; en passant; promotion
    // with capture and mate; a start position with a large move number
    ("rnbqkbnr/pppppppp/8/8/8/8/PPPPPPPP/RNBQKBNR w KQkq - 0 1", "e2e4 e7e5 g1f3 b8c6 f1b5 a7a6"),
    ("rnbqkbnr/pppppppp/8/8/4P3/8/PPPP1PPP/RNBQKBNR b KQkq e3 0 1", "e7e5 g1f3 b8c6"),
    ("r3k2r/pppq1ppp/2n5/8/8/2N5/PPPQ1PPP/R3K2R w KQkq - 4 12", "e1g1 e8c8 a1d1 c8b8"),
    ("4k3/8/8/8/1p6/8/P7/4K3 w - - 0 40", "a2a4 b4a3 e1d1 a3a2 d1c2 a2a1q"),
    ("1r2k3/P7/8/8/8/8/8/4K3 w - - 10 65534", "a7b8q e8e7 b8b7 e7e6 e1e2"),
    ("4k3/8/8/8/8/8/8/4K2R b K - 0 7", "e8d8"),
];
#[cfg(not(kani))]
fn outcomes() -> Vec<Option<Outcome>> {
    vec![None, Some(Outcome::Draw(DrawReason::Stalemate)), Some(Outcome::Draw(DrawReason::Repeat3)),
         Some(Outcome::Win { side: Color::White, reason: WinReason::Checkmate }), Some(Outcome::Win { side: Color::Black, reason: WinReason::Resign })]
}
#[cfg(not(kani))]
fn build(start: &str, line: &str) -> (Board, Vec<Move>, Vec<Board>, BaseMoveChain<NoRepeat>) {
    // independent replay: each move is read and applied on a plain Board, outside the chain
    let s = Board::from_fen(start).unwrap();
    let mut b = s.clone();
    let mut moves = Vec::new();
    let mut before = Vec::new();
    for t in line.split(' ') {
        let m = Move::from_uci_legal(t, &b).unwrap();
        before.push(b.clone());
        b = b.make_move(m).unwrap();
        moves.push(m);
    }
    let mut chain = BaseMoveChain::<NoRepeat>::new(s.clone());
    for m in &moves { chain.push(*m).unwrap(); }
    assert!(chain.last() == &b);
    (s, moves, before, chain)
}

#[cfg(not(kani))]
#[test]
fn n17_walker_all_op_sequences() {
    let mut n = 0u64;
    for (start, line) in GAMES {
        let (_s, moves, before, chain) = build(start, line);
        let len = moves.len();
        let (_s2, _m2, _b2, snapshot) = build(start, line);
        // every sequence of <= 7 operations over {next, prev, start, end}
        for l in 0..=7u32 {
            for code in 0..4u32.pow(l) {
                let mut w = chain.walk();
                let mut pos = 0usize;
                let mut c = code;
                for _ in 0..l {
                    let op = c % 4; c /= 4;
                    match op {
                        0 => match w.next() {
                            Some((b, m)) => { if !(pos < len && m == moves[pos] && *b == before[pos]) { eprintln!("REPLAY-INPUT: game {:?} from {:?}, operation code {} of length {}: next() at {} returned a wrong pair", line, start, code, l, pos); panic!("walker next"); } pos += 1; }
                            None => { if pos != len { eprintln!("REPLAY-INPUT: game {:?} from {:?}, operation code {} of length {}: next() at {} returned None", line, start, code, l, pos); panic!("walker next none"); } }
                        },
                        1 => match w.prev() {
                            Some((b, m)) => { if !(pos > 0 && m == moves[pos - 1] && *b == before[pos - 1]) { eprintln!("REPLAY-INPUT: game {:?} from {:?}, operation code {} of length {}: prev() at {} returned a wrong pair", line, start, code, l, pos); panic!("walker prev"); } pos -= 1; }
                            None => { if pos != 0 { eprintln!("REPLAY-INPUT: game {:?} from {:?}, operation code {} of length {}: prev() at {} returned None", line, start, code, l, pos); panic!("walker prev none"); } }
                        },
                        2 => { w.start(); pos = 0; }
                        _ => { w.end(); pos = len; }
                    }
                    if w.pos() != pos || w.len() != len { eprintln!("REPLAY-INPUT: game {:?} from {:?}, operation code {} of length {}: pos()/len() wrong at {}", line, start, code, l, pos); panic!("walker pos"); }
                }
                drop(w);
                n += 1;
            }
        }
        assert!(chain == snapshot && chain.last() == snapshot.last() && chain.len() == len);
    }
    eprintln!("EVALUATIONS: {}", n);
}

#[cfg(not(kani))]
#[test]
fn n17_lists_all_policies() {
    let mut n = 0u64;
    for (start, line) in GAMES {
        let (s, moves, before, mut chain) = build(start, line);
        let real_start = s.raw().move_number as usize;
        for outcome in outcomes() {
            chain.reset_outcome(outcome);
            let token = match outcome { None => "*", Some(Outcome::Draw(_)) => "1/2-1/2", Some(Outcome::Win { side: Color::White, .. }) => "1-0", Some(Outcome::Win { side: Color::Black, .. }) => "0-1" };
            // UCI list: the moves in order, single spaces; replaying it rebuilds an equal chain
            let u = chain.uci().to_string();
            if u != *line { eprintln!("REPLAY-INPUT: game {:?} from {:?}: UCI list {:?}", line, start, u); panic!("uci list text"); }
            let mut again = BaseMoveChain::<NoRepeat>::from_uci_list(s.clone(), &u).unwrap();
            again.reset_outcome(outcome);
            if !(again == chain && again.last() == chain.last()) { eprintln!("REPLAY-INPUT: game {:?} from {:?}: the UCI list does not rebuild an equal chain", line, start); panic!("uci list round trip"); }
            n += 1;
            let mut customs: Vec<usize> = (0..300).collect();
            customs.extend([999, 1000, 65535, 65536, 1 << 40]);
            let mut policies = vec![(NumberPolicy::Omit, None), (NumberPolicy::FromBoard, Some(real_start))];
            for c in customs { policies.push((NumberPolicy::Custom(c), Some(c))); }
            for (pol, first) in policies {
                for style in [moves::Style::San, moves::Style::SanUtf8, moves::Style::Uci] {
                    for show in [true, false] {
                        let got = chain.styled(pol, style, if show { GameStatusPolicy::Show } else { GameStatusPolicy::Hide }).to_string();
                        // reference text: a number before every White move and before a Black first
                        // move, continuing from `first`; the move texts are C09 / C10 texts
                        let mut want = String::new();
                        for (i, m) in moves.iter().enumerate() {
                            let b = &before[i];
                            if i > 0 { want.push(' '); }
                            if let Some(f) = first {
                                let num = f + (b.raw().move_number as usize - real_start);
                                if b.side() == Color::White { want.push_str(&format!("{}. ", num)); }
                                else if i == 0 { want.push_str(&format!("{}... ", num)); }
                            }
                            want.push_str(&m.styled(b, style).unwrap().to_string());
                        }
                        if show { want.push(' '); want.push_str(token); }
                        // "N. e4": the implementation writes "N." then " e4": same text
                        if got != want {
                            eprintln!("REPLAY-INPUT: game {:?} from {:?}, first number {:?}, style {:?}, status shown {}, outcome {:?}: printed {:?}, expected {:?}", line, start, first, style, show, outcome, got, want);
                            panic!("styled list text");
                        }
                        n += 1;
                    }
                }
            }
        }
    }
    eprintln!("EVALUATIONS: {}", n);
}

// C13 bounded stand-in for chain equality (the symbolic obligation C13/chain/equality exceeds CBMC's
// memory with the 64-cell comparison unwound: thorough): a family of chains built from the six games,
// their prefixes, all stored outcomes, and start positions that differ only in the half-move clock
// or the move number (a pawn move then leads to the SAME live board from DIFFERENT starts).  For
// every pair: == holds exactly when start position, move list and outcome are equal.
#[cfg(not(kani))]
#[test]
fn n13_chain_equality_family() {
    let mut fam: Vec<(RawBoard, Vec<Move>, Option<Outcome>, BaseMoveChain<NoRepeat>)> = Vec::new();
    let mut starts: Vec<(String, &str)> = GAMES.iter().map(|(s, l)| (s.to_string(), *l)).collect();
    starts.push(("rnbqkbnr/pppppppp/8/8/8/8/PPPPPPPP/RNBQKBNR w KQkq - 7 1".to_string(), "e2e4 e7e5 g1f3 b8c6 f1b5 a7a6"));
    starts.push(("rnbqkbnr/pppppppp/8/8/8/8/PPPPPPPP/RNBQKBNR w KQkq - 0 9".to_string(), "e2e4 e7e5 g1f3 b8c6 f1b5 a7a6"));
    starts.push(("4k3/8/8/8/1p6/8/P7/4K3 w - - 33 40".to_string(), "a2a4 b4a3 e1d1 a3a2 d1c2 a2a1q"));
    for (start, line) in &starts {
        let (s, moves, _before, _chain) = build(start, line);
        for k in 0..=moves.len() {
            for (oi, outcome) in outcomes().into_iter().enumerate() {
                if oi >= 3 && k % 2 == 1 { continue; }
                let mut c = BaseMoveChain::<NoRepeat>::new(s.clone());
                for m in &moves[..k] { c.push(*m).unwrap(); }
                c.reset_outcome(outcome);
                fam.push((*s.raw(), moves[..k].to_vec(), outcome, c));
            }
        }
    }
    let mut n = 0u64;
    let mut same_live_different_start = 0u64;
    for a in &fam { for b in &fam {
        let want = a.0 == b.0 && a.1 == b.1 && a.2 == b.2;
        if a.3.last() == b.3.last() && a.0 != b.0 { same_live_different_start += 1; }
        if (a.3 == b.3) != want {
            eprintln!("REPLAY-INPUT: chains (start {:?}, {} moves, outcome {:?}) and (start {:?}, {} moves, outcome {:?}): == is {}, expected {}", a.0.to_string(), a.1.len(), a.2, b.0.to_string(), b.1.len(), b.2, a.3 == b.3, want);
            panic!("chain equality");
        }
        n += 1;
    } }
    assert!(same_live_different_start > 0);
    eprintln!("EVALUATIONS: {}", n);
}
