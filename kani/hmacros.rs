// included textually at the top of every harness file
#[allow(unused_macros)]
macro_rules! harness {
    ($(#[$m:meta])* fn $name:ident() $body:block) => {
        #[cfg_attr(kani, kani::proof)]
        $(#[cfg_attr(kani, $m)])*
        #[cfg_attr(not(kani), test)]
        #[allow(unused_variables, unused_mut, unused_assignments)]
        fn $name() $body
    };
}
#[allow(unused_macros)]
macro_rules! cover {
    ($c:expr) => {{
        #[cfg(kani)]
        kani::cover!($c);
        #[cfg(not(kani))]
        let _ = $c;
    }};
}
