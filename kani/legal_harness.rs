// C01 items 1-2: the legality decision (with and without the pin/check prefilter) against the
// rules: a pseudo-legal move is legal iff the mover's king is not attacked in the position after
// the move.  Child module of chess/src/legal.rs.
include!("hmacros.rs");
use super::*;
use crate::verif_anyboard as ab;
use crate::verif_refspec as rs;
use crate::verif_shim as vk;

macro_rules! c01_is_legal {
    ($name:ident, $name_pre:ident, $kind:expr, $color:expr) => {
        // without prefilter: Move::validate = semi_validate + is_legal_unchecked (Checker<NilPrechecker>)
        harness! {
            #[kani::unwind(14)]
            #[kani::stub(crate::attack::rook, crate::verif_anyboard::stub_rook)]
            #[kani::stub(crate::attack::bishop, crate::verif_anyboard::stub_bishop)]
            fn $name() {
                let b = ab::any_board_side($color);
                ab::assume_one_king_each(&b);
                ab::assume_ep_consistent(&b);
                ab::assume_castling_normal(&b);
                let mv = ab::any_move_of_kind($kind);
                let rm = rs::rmove(mv);
                vk::assume(rs::ref_pseudo(&b.r, rm));
                let want = rs::ref_legal(&b.r, rm);
                assert!(unsafe { mv.is_legal_unchecked(&b) } == want);
                cover!(want);
                cover!(!want);
            }
        }
        // with the pin / check prefilter (legal generators, has_legal_moves, SAN)
        harness! {
            #[kani::unwind(14)]
            #[kani::stub(crate::attack::rook, crate::verif_anyboard::stub_rook)]
            #[kani::stub(crate::attack::bishop, crate::verif_anyboard::stub_bishop)]
            fn $name_pre() {
                let b = ab::any_board_side($color);
                ab::assume_one_king_each(&b);
                ab::assume_ep_consistent(&b);
                ab::assume_castling_normal(&b);
                let mv = ab::any_move_of_kind($kind);
                let rm = rs::rmove(mv);
                vk::assume(rs::ref_pseudo(&b.r, rm));
                let want = rs::ref_legal(&b.r, rm);
                assert!(Checker::new(&b, DefaultPrechecker::new(&b)).is_legal(mv) == want);
                cover!(want);
                cover!(!want);
            }
        }
    };
}
c01_is_legal!(c01_is_legal_simple_w, c01_is_legal_pre_simple_w, MoveKind::Simple, Color::White);
c01_is_legal!(c01_is_legal_simple_b, c01_is_legal_pre_simple_b, MoveKind::Simple, Color::Black);
c01_is_legal!(c01_is_legal_castle_k_w, c01_is_legal_pre_castle_k_w, MoveKind::CastlingKingside, Color::White);
c01_is_legal!(c01_is_legal_castle_k_b, c01_is_legal_pre_castle_k_b, MoveKind::CastlingKingside, Color::Black);
c01_is_legal!(c01_is_legal_castle_q_w, c01_is_legal_pre_castle_q_w, MoveKind::CastlingQueenside, Color::White);
c01_is_legal!(c01_is_legal_castle_q_b, c01_is_legal_pre_castle_q_b, MoveKind::CastlingQueenside, Color::Black);
c01_is_legal!(c01_is_legal_double_w, c01_is_legal_pre_double_w, MoveKind::PawnDouble, Color::White);
c01_is_legal!(c01_is_legal_double_b, c01_is_legal_pre_double_b, MoveKind::PawnDouble, Color::Black);
c01_is_legal!(c01_is_legal_ep_w, c01_is_legal_pre_ep_w, MoveKind::Enpassant, Color::White);
c01_is_legal!(c01_is_legal_ep_b, c01_is_legal_pre_ep_b, MoveKind::Enpassant, Color::Black);
c01_is_legal!(c01_is_legal_promo_n_w, c01_is_legal_pre_promo_n_w, MoveKind::PromoteKnight, Color::White);
c01_is_legal!(c01_is_legal_promo_n_b, c01_is_legal_pre_promo_n_b, MoveKind::PromoteKnight, Color::Black);
c01_is_legal!(c01_is_legal_promo_b_w, c01_is_legal_pre_promo_b_w, MoveKind::PromoteBishop, Color::White);
c01_is_legal!(c01_is_legal_promo_b_b, c01_is_legal_pre_promo_b_b, MoveKind::PromoteBishop, Color::Black);
c01_is_legal!(c01_is_legal_promo_r_w, c01_is_legal_pre_promo_r_w, MoveKind::PromoteRook, Color::White);
c01_is_legal!(c01_is_legal_promo_r_b, c01_is_legal_pre_promo_r_b, MoveKind::PromoteRook, Color::Black);
c01_is_legal!(c01_is_legal_promo_q_w, c01_is_legal_pre_promo_q_w, MoveKind::PromoteQueen, Color::White);
c01_is_legal!(c01_is_legal_promo_q_b, c01_is_legal_pre_promo_q_b, MoveKind::PromoteQueen, Color::Black);
