// C01 items 1-2: the legality decision (with and without the pin/check prefilter) against the
// rules: a pseudo-legal move is legal iff the mover's king is not attacked in the position after
// the move.  Child module of chess/src/legal.rs.
include!("hmacros.rs");
use super::*;
use crate::verif_anyboard as ab;
use crate::verif_refspec as rs;
use crate::verif_shim as vk;

macro_rules! c01_is_legal {
    ($name:ident, $kind:expr, $color:expr) => {
        harness! {
            #[kani::unwind(14)]
            #[kani::stub(crate::attack::rook, crate::verif_anyboard::stub_rook)]
            #[kani::stub(crate::attack::bishop, crate::verif_anyboard::stub_bishop)]
            fn $name() {
                let b = ab::any_board_side($color);
                ab::assume_one_king_each(&b);
                ab::assume_ep_consistent(&b);
                ab::assume_castling_normal(&b);
                let mv = ab::any_move_of_kind($kind);
                let rm = rs::rmove(mv);
                vk::assume(rs::ref_pseudo(&b.r, rm));
                let want = rs::ref_legal(&b.r, rm);
                // without prefilter (Move::is_legal_unchecked, Move::validate)
                assert!(Checker::new(&b, NilPrechecker).is_legal(mv) == want);
                assert!(unsafe { mv.is_legal_unchecked(&b) } == want);
                assert!(mv.validate(&b).is_ok() == want);
                // with the pin / check prefilter (legal generators, has_legal_moves, SAN)
                assert!(Checker::new(&b, DefaultPrechecker::new(&b)).is_legal(mv) == want);
                cover!(want);
                cover!(!want);
            }
        }
    };
}
c01_is_legal!(c01_is_legal_simple_w, MoveKind::Simple, Color::White);
c01_is_legal!(c01_is_legal_simple_b, MoveKind::Simple, Color::Black);
c01_is_legal!(c01_is_legal_castle_k_w, MoveKind::CastlingKingside, Color::White);
c01_is_legal!(c01_is_legal_castle_k_b, MoveKind::CastlingKingside, Color::Black);
c01_is_legal!(c01_is_legal_castle_q_w, MoveKind::CastlingQueenside, Color::White);
c01_is_legal!(c01_is_legal_castle_q_b, MoveKind::CastlingQueenside, Color::Black);
c01_is_legal!(c01_is_legal_double_w, MoveKind::PawnDouble, Color::White);
c01_is_legal!(c01_is_legal_double_b, MoveKind::PawnDouble, Color::Black);
c01_is_legal!(c01_is_legal_ep_w, MoveKind::Enpassant, Color::White);
c01_is_legal!(c01_is_legal_ep_b, MoveKind::Enpassant, Color::Black);
c01_is_legal!(c01_is_legal_promo_n_w, MoveKind::PromoteKnight, Color::White);
c01_is_legal!(c01_is_legal_promo_n_b, MoveKind::PromoteKnight, Color::Black);
c01_is_legal!(c01_is_legal_promo_b_w, MoveKind::PromoteBishop, Color::White);
c01_is_legal!(c01_is_legal_promo_b_b, MoveKind::PromoteBishop, Color::Black);
c01_is_legal!(c01_is_legal_promo_r_w, MoveKind::PromoteRook, Color::White);
c01_is_legal!(c01_is_legal_promo_r_b, MoveKind::PromoteRook, Color::Black);
c01_is_legal!(c01_is_legal_promo_q_w, MoveKind::PromoteQueen, Color::White);
c01_is_legal!(c01_is_legal_promo_q_b, MoveKind::PromoteQueen, Color::Black);
