// extension of legal_harness.rs: a stand-in for DefaultPrechecker::new used by the list-glue
// obligations (movegen_harness_c.rs). The prefilter is imported there together with the legality
// decision (Checker::is_legal is replaced by its contract), so its constructor must not run: under
// Kani 0.68 the generic attack query it calls misbehaves next to stubs of generic methods.
use super::*;
pub(crate) fn stub_prechecker_new(_b: &Board) -> DefaultPrechecker { DefaultPrechecker(PrecheckData::Check) }
// legality decision imported as "odd destination index AND the marker's colour group (source index
// 8..15 = White, 16..23 = Black) is the side to move of the checker's board": a generator method
// instantiated for the wrong colour then yields no accepted move
pub(crate) fn stub_is_legal_colour_tag<'a, P: Prechecker>(c: &Checker<'a, P>, mv: Move) -> bool where 'a: 'a {
    let group = mv.src().index() >> 3;
    mv.dst().index() & 1 == 1 && group == if c.src.r.side == Color::White { 1 } else { 2 }
}
