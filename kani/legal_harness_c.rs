// extension of legal_harness.rs: the prefilter on KING moves only (cheap form for the quick tier of
// what c01_is_legal_pre_simple_* proves for every piece: the king is in `pinned_or_king`, so the
// prefilter must not answer for it and the full test decides)
include!("hmacros.rs");
use super::*;
use crate::types::{Cell, Piece};
use crate::verif_anyboard as ab;
use crate::verif_refspec as rs;
use crate::verif_shim as vk;

macro_rules! c01_is_legal_pre_king {
    ($name:ident, $color:expr) => {
        harness! {
            #[kani::unwind(14)]
            #[kani::stub(crate::attack::rook, crate::verif_anyboard::stub_rook)]
            #[kani::stub(crate::attack::bishop, crate::verif_anyboard::stub_bishop)]
            fn $name() {
                let b = ab::any_board_side($color);
                ab::assume_one_king_each(&b);
                ab::assume_ep_consistent(&b);
                ab::assume_castling_normal(&b);
                let mv = ab::any_move_of_kind(MoveKind::Simple);
                vk::assume(mv.src_cell() == Cell::from_parts($color, Piece::King));
                let rm = rs::rmove(mv);
                vk::assume(rs::ref_pseudo(&b.r, rm));
                let want = rs::ref_legal(&b.r, rm);
                assert!(Checker::new(&b, DefaultPrechecker::new(&b)).is_legal(mv) == want);
                cover!(want);
                cover!(!want);
            }
        }
    };
}
c01_is_legal_pre_king!(c01_is_legal_pre_king_w, Color::White);
c01_is_legal_pre_king!(c01_is_legal_pre_king_b, Color::Black);
