// Spec-level lemmas: obligations about the reference semantics alone (no implementation code).
// They cross-check kani/refspec.rs against itself (DESIGN.md 2.4) and carry the parts of C18, C02,
// C07 and C01 that are statements about the rules rather than about the code.
include!("hmacros.rs");
use crate::board::RawBoard;
use crate::types::{CastlingRights, CastlingSide, Cell, Color, Coord};
use crate::verif_anyboard as ab;
use crate::verif_refspec as rs;
use crate::verif_shim as vk;

// ---- mirrors -------------------------------------------------------------------------------
fn swap_colour(c: u8) -> u8 { if c == 0 { 0 } else if c <= 6 { c + 6 } else { c - 6 } }
/// top-to-bottom mirror with colours, side to move, rights and mark swapped
pub fn mirror_v(raw: &RawBoard) -> RawBoard {
    let mut cells = [Cell::EMPTY; 64];
    let mut r = 0;
    while r < 8 { let mut f = 0; while f < 8 { cells[(7 - r) * 8 + f] = ab::cell(swap_colour(rs::ci(raw.cells[r * 8 + f]))); f += 1; } r += 1; }
    let mut cr = CastlingRights::EMPTY;
    if raw.castling.has(Color::White, CastlingSide::King) { cr.set(Color::Black, CastlingSide::King); }
    if raw.castling.has(Color::White, CastlingSide::Queen) { cr.set(Color::Black, CastlingSide::Queen); }
    if raw.castling.has(Color::Black, CastlingSide::King) { cr.set(Color::White, CastlingSide::King); }
    if raw.castling.has(Color::Black, CastlingSide::Queen) { cr.set(Color::White, CastlingSide::Queen); }
    RawBoard { cells, side: raw.side.inv(), castling: cr, ep_source: raw.ep_source.map(|p| ab::coord(p.index() as u8 ^ 56)),
               move_counter: raw.move_counter, move_number: raw.move_number }
}
/// left-to-right mirror (only meaningful without castling rights)
pub fn mirror_h(raw: &RawBoard) -> RawBoard {
    let mut cells = [Cell::EMPTY; 64];
    let mut r = 0;
    while r < 8 { let mut f = 0; while f < 8 { cells[r * 8 + (7 - f)] = raw.cells[r * 8 + f]; f += 1; } r += 1; }
    RawBoard { cells, side: raw.side, castling: raw.castling, ep_source: raw.ep_source.map(|p| ab::coord(p.index() as u8 ^ 7)),
               move_counter: raw.move_counter, move_number: raw.move_number }
}
fn mv_v(m: rs::RMove) -> rs::RMove { rs::RMove { kind: m.kind, cell: swap_colour(m.cell), src: if m.kind == 0 { 0 } else { m.src ^ 56 }, dst: if m.kind == 0 { 0 } else { m.dst ^ 56 } } }
fn mv_h(m: rs::RMove) -> rs::RMove { rs::RMove { kind: m.kind, cell: m.cell, src: m.src ^ 7, dst: m.dst ^ 7 } }
fn any_rmove() -> rs::RMove {
    let k = vk::any_u8(); vk::assume(k < 10);
    let c = vk::any_u8(); vk::assume(c < 13);
    rs::RMove { kind: k, cell: c, src: ab::any_sq(), dst: ab::any_sq() }
}
fn same_raw_at(a: &RawBoard, b: &RawBoard, w: u8) -> bool {
    a.cells[w as usize] == b.cells[w as usize] && a.side == b.side && a.castling == b.castling && a.ep_source == b.ep_source
        && a.move_counter == b.move_counter && a.move_number == b.move_number
}

// ---- C18: the rules are colour-symmetric and (without castling) left-right symmetric ----------
harness! {
    #[kani::unwind(10)]
    fn c18_attacks_commute_with_mirrors() {
        let raw = ab::any_raw();
        let t = ab::any_sq(); let s = ab::any_sq();
        let by_white = vk::any_bool();
        let v = mirror_v(&raw);
        assert!(rs::on(rs::ref_attackers(&v.cells, t ^ 56, !by_white), s ^ 56) == rs::on(rs::ref_attackers(&raw.cells, t, by_white), s));
        let h = mirror_h(&raw);
        assert!(rs::on(rs::ref_attackers(&h.cells, t ^ 7, by_white), s ^ 7) == rs::on(rs::ref_attackers(&raw.cells, t, by_white), s));
        // mirroring twice is the identity
        let vv = mirror_v(&v); let hh = mirror_h(&h);
        assert!(same_raw_at(&vv, &raw, t) && same_raw_at(&hh, &raw, t));
        cover!(rs::on(rs::ref_attackers(&raw.cells, t, by_white), s));
    }
}
harness! {
    #[kani::unwind(10)]
    fn c18_validity_commutes_with_colour_mirror() {
        let raw = ab::any_raw();
        let v = mirror_v(&raw);
        assert!(rs::ref_valid(&v) == rs::ref_valid(&raw));
        assert!(rs::ref_insufficient(&v.cells) == rs::ref_insufficient(&raw.cells));
        cover!(rs::ref_valid(&raw));
    }
}
harness! {
    #[kani::unwind(10)]
    fn c18_validity_commutes_with_left_right_mirror() {
        let raw = ab::any_raw();
        let h = mirror_h(&raw);
        assert!(rs::ref_valid(&h) == rs::ref_valid(&raw));
        assert!(rs::ref_insufficient(&h.cells) == rs::ref_insufficient(&raw.cells));
        cover!(rs::ref_valid(&raw));
    }
}
harness! {
    #[kani::unwind(10)]
    fn c18_moves_commute_with_colour_mirror() {
        let raw = ab::any_raw();
        // the property speaks of valid positions: "the mover's king" must be unique (the reference
        // takes the first king in square order, which no mirror preserves when there are two)
        vk::assume(rs::count_code(&raw.cells, rs::code(rs::side_white(&raw), rs::KING)) == 1);
        let m = any_rmove();
        let v = mirror_v(&raw);
        // (the null move is a fixed tuple on square 0 and has no mirror image; it is never pseudo-legal)
        if m.kind != 0 { assert!(rs::ref_well_formed(mv_v(m)) == rs::ref_well_formed(m)); }
        let p = rs::ref_pseudo(&raw, m);
        assert!(rs::ref_pseudo(&v, mv_v(m)) == p);
        if p {
            let w = ab::any_sq();
            let a = rs::ref_apply(&raw, m);
            let av = rs::ref_apply(&v, mv_v(m));
            // the move NUMBER is not mirror-covariant (it advances after Black's move and the mirror
            // swaps the colours); the property does not ask for it
            let mut ma = mirror_v(&a); ma.move_number = av.move_number;
            assert!(same_raw_at(&av, &ma, w));
            assert!(rs::ref_legal(&v, mv_v(m)) == rs::ref_legal(&raw, m));
        }
        cover!(p && m.kind == rs::K_EP);
        cover!(p && m.kind == rs::K_CASTLE_Q);
    }
}
harness! {
    #[kani::unwind(10)]
    fn c18_moves_commute_with_left_right_mirror() {
        let mut raw = ab::any_raw();
        raw.castling = CastlingRights::EMPTY;
        vk::assume(rs::count_code(&raw.cells, rs::code(rs::side_white(&raw), rs::KING)) == 1);
        let m = any_rmove();
        let h = mirror_h(&raw);
        let p = rs::ref_pseudo(&raw, m);
        assert!(rs::ref_pseudo(&h, mv_h(m)) == p);
        if p {
            let w = ab::any_sq();
            let a = rs::ref_apply(&raw, m);
            let ah = rs::ref_apply(&h, mv_h(m));
            assert!(same_raw_at(&ah, &mirror_h(&a), w));
            assert!(rs::ref_legal(&h, mv_h(m)) == rs::ref_legal(&raw, m));
        }
        cover!(p && m.kind == rs::K_EP);
    }
}
harness! {
    fn c18_outcome_commutes() {
        // classification depends on the position only through has-move / in-check / material /
        // clock, each of which is mirror-invariant (above); the winner is the side not to move
        let raw = ab::any_raw();
        let hm = vk::any_bool(); let ic = vk::any_bool();
        let v = mirror_v(&raw);
        vk::assume(rs::ref_insufficient(&v.cells) == rs::ref_insufficient(&raw.cells));
        let a = rs::ref_outcome(&raw, hm, ic); let b = rs::ref_outcome(&v, hm, ic);
        match (a, b) {
            (None, None) => {}
            (Some(crate::types::Outcome::Draw(x)), Some(crate::types::Outcome::Draw(y))) => assert!(x == y),
            (Some(crate::types::Outcome::Win { side: s1, reason: r1 }), Some(crate::types::Outcome::Win { side: s2, reason: r2 })) => assert!(s1 == s2.inv() && r1 == r2),
            _ => assert!(false, "outcome class differs under the colour mirror"),
        }
    }
}

// ---- C02: a legal move leads from a valid, normalised position to a valid, normalised one -------
harness! {
    #[kani::unwind(10)]
    fn c02_validity_preserved_by_legal_moves() {
        let raw = ab::any_raw();
        vk::assume(rs::ref_valid(&raw));
        let n = rs::ref_normalise(&raw);
        vk::assume(n.castling == raw.castling && n.ep_source == raw.ep_source);
        let m = any_rmove();
        vk::assume(rs::ref_legal(&raw, m));
        let a = rs::ref_apply(&raw, m);
        assert!(rs::ref_valid(&a));
        let na = rs::ref_normalise(&a);
        // rights stay normalised; a fresh mark may be dropped by normalisation only if no enemy
        // pawn... - it never is: the mark is set exactly on the pawn that has just made a double step
        assert!(na.castling == a.castling);
        assert!(na.ep_source == a.ep_source);
        cover!(m.kind == rs::K_DOUBLE);
        cover!(m.kind == rs::K_CASTLE_K);
    }
}

// ---- C07 (d): castling legal => the king's single step towards the rook is legal ----------------
harness! {
    #[kani::unwind(10)]
    fn c07_castling_legal_implies_king_step_legal() {
        let raw = ab::any_raw();
        vk::assume(rs::count_code(&raw.cells, rs::code(true, rs::KING)) == 1 && rs::count_code(&raw.cells, rs::code(false, rs::KING)) == 1);
        let white = rs::side_white(&raw);
        let kingside = vk::any_bool();
        let hr = rs::home_rank(white) as u8 * 8;
        let castle = rs::RMove { kind: if kingside { rs::K_CASTLE_K } else { rs::K_CASTLE_Q }, cell: rs::code(white, rs::KING), src: hr + 4, dst: if kingside { hr + 6 } else { hr + 2 } };
        vk::assume(rs::ref_legal(&raw, castle));
        let step = rs::RMove { kind: rs::K_SIMPLE, cell: rs::code(white, rs::KING), src: hr + 4, dst: if kingside { hr + 5 } else { hr + 3 } };
        assert!(rs::ref_legal(&raw, step));
    }
}

// ---- C01/C06: every pseudo-legal move lies in exactly one generator class; partitions ------------
harness! {
    #[kani::unwind(10)]
    fn c01_classes_partition_pseudo_legal_moves() {
        let raw = ab::any_raw();
        let m = any_rmove();
        vk::assume(rs::ref_pseudo(&raw, m));
        let p = rs::piece_of(m.cell);
        let occupied = rs::ci(raw.cells[m.dst as usize]) != 0 || m.kind == rs::K_EP;
        let straight = m.src % 8 == m.dst % 8;
        // the classes of movegen.vspec
        let pawn_simple_np = p == rs::PAWN && straight && (m.kind == rs::K_SIMPLE || m.kind == rs::K_DOUBLE);
        let pawn_simple_p = p == rs::PAWN && straight && rs::is_promo(m.kind);
        let pawn_capture = p == rs::PAWN && !straight && (m.kind == rs::K_SIMPLE || rs::is_promo(m.kind));
        let pawn_ep = m.kind == rs::K_EP;
        let piece_simple = p != rs::PAWN && m.kind == rs::K_SIMPLE && !occupied;
        let piece_capture = p != rs::PAWN && m.kind == rs::K_SIMPLE && occupied;
        let castling = m.kind == rs::K_CASTLE_K || m.kind == rs::K_CASTLE_Q;
        let n = pawn_simple_np as u8 + pawn_simple_p as u8 + pawn_capture as u8 + pawn_ep as u8 + piece_simple as u8 + piece_capture as u8 + castling as u8;
        assert!(n == 1);
        // the property's subsets: capture = destination occupied or en passant
        let is_capture = occupied;
        assert!(is_capture == (pawn_capture || pawn_ep || piece_capture));
        // non-capture = promotion part + non-promotion part, disjoint
        let noncap_promo = pawn_simple_p;
        let noncap_nopromo = pawn_simple_np || piece_simple || castling;
        assert!(!is_capture == (noncap_promo || noncap_nopromo) && !(noncap_promo && noncap_nopromo));
        // a straight pawn move never lands on an occupied square, a diagonal one always captures
        if p == rs::PAWN && m.kind != rs::K_EP { assert!(straight == !occupied); }
    }
}
