// C16 (attack queries), C01/C06 (generators), C07 (has_legal_moves) - child of chess/src/movegen.rs
include!("hmacros.rs");
use super::*;
use crate::verif_anyboard as ab;
use crate::verif_refspec as rs;
use crate::verif_shim as vk;

// ------------------------------------------------------------------------------------------------
// C16: attack and check queries
// ------------------------------------------------------------------------------------------------
macro_rules! c16_attackers {
    ($name:ident, $C:ty, $white:expr) => {
        harness! {
            #[kani::unwind(14)]
            #[kani::stub(crate::attack::rook, crate::verif_anyboard::stub_rook)]
            #[kani::stub(crate::attack::bishop, crate::verif_anyboard::stub_bishop)]
            fn $name() {
                let b = ab::any_board();
                let t = ab::any_sq();
                let want = rs::ref_attackers(&b.r.cells, t, $white);
                assert!(do_cell_attackers::<$C>(&b, ab::coord(t)).as_raw() == want);
                assert!(do_is_cell_attacked::<$C>(&b, ab::coord(t)) == (want != 0));
                let col = if $white { Color::White } else { Color::Black };
                assert!(cell_attackers(&b, ab::coord(t), col).as_raw() == want);
                assert!(is_cell_attacked(&b, ab::coord(t), col) == (want != 0));
                cover!(want.count_ones() >= 3);
                cover!(want == 0);
            }
        }
    };
}
c16_attackers!(c16_attackers_white, generic::White, true);
c16_attackers!(c16_attackers_black, generic::Black, false);

harness! {
    #[kani::unwind(14)]
    #[kani::stub(crate::attack::rook, crate::verif_anyboard::stub_rook)]
    #[kani::stub(crate::attack::bishop, crate::verif_anyboard::stub_bishop)]
    fn c16_check_queries() {
        let b = ab::any_board();
        ab::assume_one_king_each(&b);
        let white = b.r.side == Color::White;
        let k = rs::king_sq(&b.r.cells, white);
        let ko = rs::king_sq(&b.r.cells, !white);
        assert!(k < 64 && ko < 64);
        assert!(b.king_pos(b.r.side).index() as u8 == k);
        assert!(b.king_pos(b.r.side.inv()).index() as u8 == ko);
        let checkers = rs::ref_attackers(&b.r.cells, k, !white);
        assert!(b.checkers().as_raw() == checkers);
        assert!(b.is_check() == (checkers != 0));
        assert!(b.is_opponent_king_attacked() == rs::ref_attacked(&b.r.cells, ko, white));
        cover!(checkers.count_ones() == 2);
    }
}
