// C16 (attack queries), C01/C06 (generators), C07 (has_legal_moves) - child of chess/src/movegen.rs
include!("hmacros.rs");
use super::*;
use crate::verif_anyboard as ab;
use crate::verif_refspec as rs;
use crate::verif_shim as vk;

// ------------------------------------------------------------------------------------------------
// C16: attack and check queries
// ------------------------------------------------------------------------------------------------
macro_rules! c16_attackers {
    ($name:ident, $C:ty, $white:expr) => {
        harness! {
            #[kani::unwind(14)]
            #[kani::stub(crate::attack::rook, crate::verif_anyboard::stub_rook)]
            #[kani::stub(crate::attack::bishop, crate::verif_anyboard::stub_bishop)]
            fn $name() {
                let b = ab::any_board();
                let t = ab::any_sq();
                let want = rs::ref_attackers(&b.r.cells, t, $white);
                assert!(do_cell_attackers::<$C>(&b, ab::coord(t)).as_raw() == want);
                assert!(do_is_cell_attacked::<$C>(&b, ab::coord(t)) == (want != 0));
                let col = if $white { Color::White } else { Color::Black };
                assert!(cell_attackers(&b, ab::coord(t), col).as_raw() == want);
                assert!(is_cell_attacked(&b, ab::coord(t), col) == (want != 0));
                cover!(want.count_ones() >= 3);
                cover!(want == 0);
            }
        }
    };
}
c16_attackers!(c16_attackers_white, generic::White, true);
c16_attackers!(c16_attackers_black, generic::Black, false);

harness! {
    #[kani::unwind(14)]
    #[kani::stub(crate::attack::rook, crate::verif_anyboard::stub_rook)]
    #[kani::stub(crate::attack::bishop, crate::verif_anyboard::stub_bishop)]
    fn c16_check_queries() {
        let b = ab::any_board();
        ab::assume_one_king_each(&b);
        let white = b.r.side == Color::White;
        let k = rs::king_sq(&b.r.cells, white);
        let ko = rs::king_sq(&b.r.cells, !white);
        assert!(k < 64 && ko < 64);
        assert!(b.king_pos(b.r.side).index() as u8 == k);
        assert!(b.king_pos(b.r.side.inv()).index() as u8 == ko);
        let checkers = rs::ref_attackers(&b.r.cells, k, !white);
        assert!(b.checkers().as_raw() == checkers);
        assert!(b.is_check() == (checkers != 0));
        assert!(b.is_opponent_king_attacked() == rs::ref_attacked(&b.r.cells, ko, white));
        cover!(checkers.count_ones() == 2);
    }
}

// ------------------------------------------------------------------------------------------------
// C01 item 3 / C06 item 3 / C07: the generators, by the witness technique (DESIGN.md 3.4).
// The generators are generic in the sink; the harness passes a sink holding one ARBITRARY move w
// and counts how often exactly w is pushed.  "hits == [w is in the specified set]" for arbitrary
// w is "exactly the specified set, each move exactly once".  The sink can also refuse the k-th
// push (symbolic k), which checks the early-exit behaviour that has_legal_moves relies on.
// ------------------------------------------------------------------------------------------------
/// exactness sink: cannot refuse (Err = Infallible, so `?` has no exit edge), counts pushes of w
pub struct WSink { pub w: Move, pub hits: u32 }
impl WSink { pub fn new(w: Move) -> WSink { WSink { w, hits: 0 } } }
impl MaybeMovePush for WSink {
    type Err = core::convert::Infallible;
    fn push(&mut self, m: Move) -> Result<(), core::convert::Infallible> {
        if m == self.w { self.hits += 1; }
        Ok(())
    }
}
/// early-exit sink: refuses exactly the witness move.  The generators are generic in the sink and
/// can only call `push`, so up to the first refusal a run is the same for every sink; "Err iff
/// the refused move is generated, and nothing is pushed after the refusal" for an arbitrary
/// single refused move therefore gives, for any sink: Err iff it refuses some generated move.
pub struct RSink { pub w: Move, pub refused: bool, pub pushed_after: bool }
impl RSink { pub fn new(w: Move) -> RSink { RSink { w, refused: false, pushed_after: false } } }
impl MaybeMovePush for RSink {
    type Err = ();
    fn push(&mut self, m: Move) -> Result<(), ()> {
        if self.refused { self.pushed_after = true; }
        if m == self.w { self.refused = true; return Err(()); }
        Ok(())
    }
}
fn check_sink(s: &WSink, _res: Result<(), core::convert::Infallible>, want: bool) {
    assert!(s.hits == if want { 1 } else { 0 });
}
fn check_rsink(s: &RSink, res: Result<(), ()>, want: bool) {
    assert!(res.is_err() == want);
    assert!(s.refused == want && !s.pushed_after);
}
fn target_class(b: &Board, w: rs::RMove) -> (bool, bool) {
    // (is a non-capture, is a capture) by the property's definition: destination occupied or en passant
    let occupied = rs::ci(b.r.cells[w.dst as usize]) != 0 || w.kind == rs::K_EP;
    (!occupied, occupied)
}
fn any_w(cell_code: u8) -> Move {
    let k = vk::any_u8(); vk::assume(1 <= k && k < 10);
    let s = ab::any_sq(); let d = ab::any_sq();
    let m = unsafe { Move::new_unchecked(rs::mk_kind(k), ab::cell(cell_code), ab::coord(s), ab::coord(d)) };
    #[cfg(not(kani))]
    vk::note(&format!("witness move kind={:?} cell={:?} src={} dst={}", m.kind(), m.src_cell(), m.src(), m.dst()));
    m
}

macro_rules! gen_piece {
    ($name:ident, $cval:expr, $white:expr, $piece:expr, $simple:expr, $capture:expr, $maxk:expr, $($call:tt)*) => {
        harness! {
            #[kani::unwind(14)]
            #[kani::stub(crate::attack::rook, crate::verif_anyboard::stub_rook)]
            #[kani::stub(crate::attack::bishop, crate::verif_anyboard::stub_bishop)]
            fn $name() {
                let b = ab::any_board_side(if $white { Color::White } else { Color::Black });
                ab::assume_at_most_16(&b);
                // loop bound of the generator's outer loop (per-loop unwinding, see registry):
                // 16 = every valid position; smaller = bounded variant of the quick tier
                vk::assume(b.pieces[rs::code($white, $piece) as usize].len() <= $maxk);
                let w = any_w(rs::code($white, $piece));
                let rw = rs::rmove(w);
                let mut sink = WSink::new(w);
                let res = MoveGenImpl::new(&b, &mut sink, $cval).$($call)*;
                let (noncap, cap) = target_class(&b, rw);
                let want = rs::ref_pseudo(&b.r, rw) && rw.kind == rs::K_SIMPLE && (($simple && noncap) || ($capture && cap));
                check_sink(&sink, res, want);
                cover!(want);
                cover!(!want);
            }
        }
    };
}
macro_rules! gen_exit {
    ($name:ident, $cval:expr, $white:expr, $piece:expr, $maxk:expr, $pred:expr, $($call:tt)*) => {
        harness! {
            #[kani::unwind(17)]
            #[kani::stub(crate::attack::rook, crate::verif_anyboard::stub_rook)]
            #[kani::stub(crate::attack::bishop, crate::verif_anyboard::stub_bishop)]
            fn $name() {
                let b = ab::any_board_side(if $white { Color::White } else { Color::Black });
                ab::assume_at_most_16(&b);
                ab::assume_no_backrank_pawns(&b);
                ab::assume_ep_consistent(&b);
                vk::assume(b.pieces[rs::code($white, $piece) as usize].len() <= $maxk);
                let w = any_w(rs::code($white, $piece));
                let rw = rs::rmove(w);
                let mut sink = RSink::new(w);
                let res = MoveGenImpl::new(&b, &mut sink, $cval).$($call)*;
                let pred: fn(rs::RMove) -> bool = $pred;
                let want = rs::ref_pseudo(&b.r, rw) && pred(rw);
                check_rsink(&sink, res, want);
                cover!(want);
                cover!(!want);
            }
        }
    };
}
use generic::{Black as GB, White as GW};
// early exit (C07 (c)), for exactly the eight classes gen_for_has_legal_moves runs
gen_exit!(exit_knight_w, GW, true, rs::KNIGHT, 16, |m| m.kind == rs::K_SIMPLE, gen_knight::<true, true>());
gen_exit!(exit_knight_w_q, GW, true, rs::KNIGHT, 3, |m| m.kind == rs::K_SIMPLE, gen_knight::<true, true>());
gen_exit!(exit_knight_b, GB, false, rs::KNIGHT, 16, |m| m.kind == rs::K_SIMPLE, gen_knight::<true, true>());
gen_exit!(exit_knight_b_q, GB, false, rs::KNIGHT, 3, |m| m.kind == rs::K_SIMPLE, gen_knight::<true, true>());
gen_exit!(exit_king_w, GW, true, rs::KING, 1, |m| m.kind == rs::K_SIMPLE, gen_king::<true, true>());
gen_exit!(exit_king_b, GB, false, rs::KING, 1, |m| m.kind == rs::K_SIMPLE, gen_king::<true, true>());
gen_exit!(exit_bishop_w, GW, true, rs::BISHOP, 16, |m| m.kind == rs::K_SIMPLE, do_gen_brq::<true, true, true, false>(Piece::Bishop));
gen_exit!(exit_bishop_w_q, GW, true, rs::BISHOP, 3, |m| m.kind == rs::K_SIMPLE, do_gen_brq::<true, true, true, false>(Piece::Bishop));
gen_exit!(exit_bishop_b, GB, false, rs::BISHOP, 16, |m| m.kind == rs::K_SIMPLE, do_gen_brq::<true, true, true, false>(Piece::Bishop));
gen_exit!(exit_bishop_b_q, GB, false, rs::BISHOP, 3, |m| m.kind == rs::K_SIMPLE, do_gen_brq::<true, true, true, false>(Piece::Bishop));
gen_exit!(exit_rook_w, GW, true, rs::ROOK, 16, |m| m.kind == rs::K_SIMPLE, do_gen_brq::<true, true, false, true>(Piece::Rook));
gen_exit!(exit_rook_w_q, GW, true, rs::ROOK, 3, |m| m.kind == rs::K_SIMPLE, do_gen_brq::<true, true, false, true>(Piece::Rook));
gen_exit!(exit_rook_b, GB, false, rs::ROOK, 16, |m| m.kind == rs::K_SIMPLE, do_gen_brq::<true, true, false, true>(Piece::Rook));
gen_exit!(exit_rook_b_q, GB, false, rs::ROOK, 3, |m| m.kind == rs::K_SIMPLE, do_gen_brq::<true, true, false, true>(Piece::Rook));
gen_exit!(exit_queen_w, GW, true, rs::QUEEN, 16, |m| m.kind == rs::K_SIMPLE, do_gen_brq::<true, true, true, true>(Piece::Queen));
gen_exit!(exit_queen_w_q, GW, true, rs::QUEEN, 3, |m| m.kind == rs::K_SIMPLE, do_gen_brq::<true, true, true, true>(Piece::Queen));
gen_exit!(exit_queen_b, GB, false, rs::QUEEN, 16, |m| m.kind == rs::K_SIMPLE, do_gen_brq::<true, true, true, true>(Piece::Queen));
gen_exit!(exit_queen_b_q, GB, false, rs::QUEEN, 3, |m| m.kind == rs::K_SIMPLE, do_gen_brq::<true, true, true, true>(Piece::Queen));
gen_exit!(exit_pawn_simple_w, GW, true, rs::PAWN, 16, |m| m.src % 8 == m.dst % 8 && m.kind != rs::K_EP, gen_pawn_simple::<true, true>());
gen_exit!(exit_pawn_simple_b, GB, false, rs::PAWN, 16, |m| m.src % 8 == m.dst % 8 && m.kind != rs::K_EP, gen_pawn_simple::<true, true>());
gen_exit!(exit_pawn_capture_w, GW, true, rs::PAWN, 16, |m| m.src % 8 != m.dst % 8 && (m.kind == rs::K_SIMPLE || rs::is_promo(m.kind)), gen_pawn_capture());
gen_exit!(exit_pawn_capture_b, GB, false, rs::PAWN, 16, |m| m.src % 8 != m.dst % 8 && (m.kind == rs::K_SIMPLE || rs::is_promo(m.kind)), gen_pawn_capture());
gen_exit!(exit_pawn_enpassant_w, GW, true, rs::PAWN, 16, |m| m.kind == rs::K_EP, gen_pawn_enpassant());
gen_exit!(exit_pawn_enpassant_b, GB, false, rs::PAWN, 16, |m| m.kind == rs::K_EP, gen_pawn_enpassant());

// all = (true, true); capture-only = (false, true); non-capture = (true, false); (false, false) is
// what gen_simple_promote passes
gen_piece!(gen_knight_tt_w, GW, true, rs::KNIGHT, true, true, 16, gen_knight::<true, true>());
gen_piece!(gen_knight_tt_w_q, GW, true, rs::KNIGHT, true, true, 3, gen_knight::<true, true>());
gen_piece!(gen_knight_tt_b, GB, false, rs::KNIGHT, true, true, 16, gen_knight::<true, true>());
gen_piece!(gen_knight_tt_b_q, GB, false, rs::KNIGHT, true, true, 3, gen_knight::<true, true>());
gen_piece!(gen_knight_tf_w, GW, true, rs::KNIGHT, true, false, 16, gen_knight::<true, false>());
gen_piece!(gen_knight_tf_b, GB, false, rs::KNIGHT, true, false, 16, gen_knight::<true, false>());
gen_piece!(gen_knight_ft_w, GW, true, rs::KNIGHT, false, true, 16, gen_knight::<false, true>());
gen_piece!(gen_knight_ft_b, GB, false, rs::KNIGHT, false, true, 16, gen_knight::<false, true>());
gen_piece!(gen_knight_ff_w, GW, true, rs::KNIGHT, false, false, 16, gen_knight::<false, false>());
gen_piece!(gen_knight_ff_b, GB, false, rs::KNIGHT, false, false, 16, gen_knight::<false, false>());
gen_piece!(gen_king_tt_w, GW, true, rs::KING, true, true, 1, gen_king::<true, true>());
gen_piece!(gen_king_tt_b, GB, false, rs::KING, true, true, 1, gen_king::<true, true>());
gen_piece!(gen_king_tf_w, GW, true, rs::KING, true, false, 1, gen_king::<true, false>());
gen_piece!(gen_king_tf_b, GB, false, rs::KING, true, false, 1, gen_king::<true, false>());
gen_piece!(gen_king_ft_w, GW, true, rs::KING, false, true, 1, gen_king::<false, true>());
gen_piece!(gen_king_ft_b, GB, false, rs::KING, false, true, 1, gen_king::<false, true>());
gen_piece!(gen_king_ff_w, GW, true, rs::KING, false, false, 1, gen_king::<false, false>());
gen_piece!(gen_king_ff_b, GB, false, rs::KING, false, false, 1, gen_king::<false, false>());
// sliders, one class per harness (the private per-class generator); the three-call wrapper gen_brq
// is covered by the dispatcher obligation
gen_piece!(gen_bishop_tt_w, GW, true, rs::BISHOP, true, true, 16, do_gen_brq::<true, true, true, false>(Piece::Bishop));
gen_piece!(gen_bishop_tt_w_q, GW, true, rs::BISHOP, true, true, 3, do_gen_brq::<true, true, true, false>(Piece::Bishop));
gen_piece!(gen_bishop_tt_b, GB, false, rs::BISHOP, true, true, 16, do_gen_brq::<true, true, true, false>(Piece::Bishop));
gen_piece!(gen_bishop_tt_b_q, GB, false, rs::BISHOP, true, true, 3, do_gen_brq::<true, true, true, false>(Piece::Bishop));
gen_piece!(gen_rook_tt_w, GW, true, rs::ROOK, true, true, 16, do_gen_brq::<true, true, false, true>(Piece::Rook));
gen_piece!(gen_rook_tt_w_q, GW, true, rs::ROOK, true, true, 3, do_gen_brq::<true, true, false, true>(Piece::Rook));
gen_piece!(gen_rook_tt_b, GB, false, rs::ROOK, true, true, 16, do_gen_brq::<true, true, false, true>(Piece::Rook));
gen_piece!(gen_rook_tt_b_q, GB, false, rs::ROOK, true, true, 3, do_gen_brq::<true, true, false, true>(Piece::Rook));
gen_piece!(gen_queen_tt_w, GW, true, rs::QUEEN, true, true, 16, do_gen_brq::<true, true, true, true>(Piece::Queen));
gen_piece!(gen_queen_tt_w_q, GW, true, rs::QUEEN, true, true, 3, do_gen_brq::<true, true, true, true>(Piece::Queen));
gen_piece!(gen_queen_tt_b, GB, false, rs::QUEEN, true, true, 16, do_gen_brq::<true, true, true, true>(Piece::Queen));
gen_piece!(gen_queen_tt_b_q, GB, false, rs::QUEEN, true, true, 3, do_gen_brq::<true, true, true, true>(Piece::Queen));

harness! {
    fn gen_allowed_mask_flags() {
        // the only place the SIMPLE / CAPTURE flags enter the piece generators
        let b = ab::any_board();
        let t = ab::any_sq();
        let mut sink = WSink::new(Move::NULL);
        let white = vk::any_bool();
        let (own, enemy) = if white { (b.white, b.black) } else { (b.black, b.white) };
        macro_rules! chk { ($C:expr) => {{
            let g = MoveGenImpl::new(&b, &mut sink, $C);
            assert!(g.allowed_mask::<true, true>().has(ab::coord(t)) == !own.has(ab::coord(t)));
            assert!(g.allowed_mask::<true, false>().has(ab::coord(t)) == !b.all.has(ab::coord(t)));
            assert!(g.allowed_mask::<false, true>().has(ab::coord(t)) == enemy.has(ab::coord(t)));
            assert!(!g.allowed_mask::<false, false>().has(ab::coord(t)));
        }}; }
        if white { chk!(GW) } else { chk!(GB) }
    }
}

macro_rules! gen_pawn_simple {
    ($name:ident, $cval:expr, $white:expr, $np:expr, $p:expr) => {
        harness! {
            #[kani::unwind(17)]
            fn $name() {
                let b = ab::any_board_side(if $white { Color::White } else { Color::Black });
                ab::assume_at_most_16(&b);
                ab::assume_no_backrank_pawns(&b);
                let w = any_w(rs::code($white, rs::PAWN));
                let rw = rs::rmove(w);
                let mut sink = WSink::new(w);
                let res = MoveGenImpl::new(&b, &mut sink, $cval).gen_pawn_simple::<{ $np }, { $p }>();
                let straight = rw.src % 8 == rw.dst % 8;
                let want = rs::ref_pseudo(&b.r, rw) && straight
                    && (($np && (rw.kind == rs::K_SIMPLE || rw.kind == rs::K_DOUBLE)) || ($p && rs::is_promo(rw.kind)));
                check_sink(&sink, res, want);
                cover!(want && rw.kind == rs::K_DOUBLE);
                cover!(want && rs::is_promo(rw.kind));
            }
        }
    };
}
gen_pawn_simple!(gen_pawn_simple_tt_w, GW, true, true, true);
gen_pawn_simple!(gen_pawn_simple_tt_b, GB, false, true, true);
gen_pawn_simple!(gen_pawn_simple_tf_w, GW, true, true, false);
gen_pawn_simple!(gen_pawn_simple_tf_b, GB, false, true, false);
gen_pawn_simple!(gen_pawn_simple_ft_w, GW, true, false, true);
gen_pawn_simple!(gen_pawn_simple_ft_b, GB, false, false, true);

macro_rules! gen_pawn_other {
    ($name:ident, $cval:expr, $white:expr, $piece:expr, $method:ident, $kindpred:expr) => {
        harness! {
            #[kani::unwind(17)]
            #[kani::stub(crate::attack::rook, crate::verif_anyboard::stub_rook)]
            #[kani::stub(crate::attack::bishop, crate::verif_anyboard::stub_bishop)]
            fn $name() {
                let b = ab::any_board_side(if $white { Color::White } else { Color::Black });
                ab::assume_at_most_16(&b);
                ab::assume_no_backrank_pawns(&b);
                ab::assume_ep_consistent(&b);
                ab::assume_castling_normal(&b);
                let w = any_w(rs::code($white, $piece));
                let rw = rs::rmove(w);
                let mut sink = WSink::new(w);
                let res = MoveGenImpl::new(&b, &mut sink, $cval).$method();
                let pred: fn(rs::RMove) -> bool = $kindpred;
                let want = rs::ref_pseudo(&b.r, rw) && pred(rw);
                check_sink(&sink, res, want);
                cover!(want);
            }
        }
    };
}
gen_pawn_other!(gen_pawn_capture_w, GW, true, rs::PAWN, gen_pawn_capture, |m| m.src % 8 != m.dst % 8 && (m.kind == rs::K_SIMPLE || rs::is_promo(m.kind)));
gen_pawn_other!(gen_pawn_capture_b, GB, false, rs::PAWN, gen_pawn_capture, |m| m.src % 8 != m.dst % 8 && (m.kind == rs::K_SIMPLE || rs::is_promo(m.kind)));
gen_pawn_other!(gen_pawn_enpassant_w, GW, true, rs::PAWN, gen_pawn_enpassant, |m| m.kind == rs::K_EP);
gen_pawn_other!(gen_pawn_enpassant_b, GB, false, rs::PAWN, gen_pawn_enpassant, |m| m.kind == rs::K_EP);
gen_pawn_other!(gen_castling_w, GW, true, rs::KING, gen_castling, |m| m.kind == rs::K_CASTLE_K || m.kind == rs::K_CASTLE_Q);
gen_pawn_other!(gen_castling_b, GB, false, rs::KING, gen_castling, |m| m.kind == rs::K_CASTLE_K || m.kind == rs::K_CASTLE_Q);

// C07 (b): the legality filter forwards exactly the legal moves, and propagates the sink's answer
harness! {
    #[kani::unwind(14)]
    #[kani::stub(crate::attack::rook, crate::verif_anyboard::stub_rook)]
    #[kani::stub(crate::attack::bishop, crate::verif_anyboard::stub_bishop)]
    fn c07_legal_filter_forwards_iff_is_legal() {
        let b = ab::any_board();
        ab::assume_one_king_each(&b);
        let k = vk::any_u8(); vk::assume(1 <= k && k < 10);
        let mv = ab::any_move_of_kind(rs::mk_kind(k));
        let expect = Checker::new(&b, DefaultPrechecker::new(&b)).is_legal(mv);
        let mut sink = WSink::new(mv);
        { let mut f = LegalFilter::new(&b, &mut sink); let _ = f.push(mv); }
        assert!(sink.hits == if expect { 1 } else { 0 });
        let mut rsink = RSink::new(mv);
        let r = { let mut f = LegalFilter::new(&b, &mut rsink); f.push(mv) };
        assert!(r.is_err() == expect && rsink.refused == expect);
        let mut e = ErrOnFirst;
        assert!(MaybeMovePush::push(&mut e, mv).is_err());
    }
}

// C09 (i): the SAN candidate generators (before the legality filter): exactly the pseudo-legal
// simple moves of `piece` to `dst`, resp. the pseudo-legal pawn captures from file `src` to file `dst`
macro_rules! san_cand {
    ($name:ident, $cval:expr, $white:expr) => {
        harness! {
            #[kani::unwind(17)]
            #[kani::stub(crate::attack::rook, crate::verif_anyboard::stub_rook)]
            #[kani::stub(crate::attack::bishop, crate::verif_anyboard::stub_bishop)]
            fn $name() {
                let b = ab::any_board_side(if $white { Color::White } else { Color::Black });
                ab::assume_at_most_16(&b);
                let pc = vk::any_u8(); vk::assume(1 <= pc && pc <= 5);
                let d = ab::any_sq();
                let w = any_w(rs::code($white, pc));
                let rw = rs::rmove(w);
                let mut sink = WSink::new(w);
                let res = MoveGenImpl::new(&b, &mut sink, $cval).san_candidates(Piece::from_index(pc as usize), ab::coord(d));
                let want = rs::ref_pseudo(&b.r, rw) && rw.kind == rs::K_SIMPLE && rw.dst == d;
                check_sink(&sink, res, want);
                cover!(want);
            }
        }
    };
}
san_cand!(c09_san_candidates_w, GW, true);
san_cand!(c09_san_candidates_b, GB, false);
macro_rules! san_pawn_cand {
    ($name:ident, $cval:expr, $white:expr) => {
        harness! {
            #[kani::unwind(17)]
            fn $name() {
                let b = ab::any_board_side(if $white { Color::White } else { Color::Black });
                ab::assume_at_most_16(&b);
                ab::assume_no_backrank_pawns(&b);
                ab::assume_ep_consistent(&b);
                let sf = vk::any_u8(); vk::assume(sf < 8); let df = vk::any_u8(); vk::assume(df < 8);
                let promote = match vk::any_u8() % 5 { 0 => None, 1 => Some(PromotePiece::Knight), 2 => Some(PromotePiece::Bishop), 3 => Some(PromotePiece::Rook), _ => Some(PromotePiece::Queen) };
                let pk = match promote { None => 0u8, Some(PromotePiece::Knight) => 6, Some(PromotePiece::Bishop) => 7, Some(PromotePiece::Rook) => 8, Some(PromotePiece::Queen) => 9 };
                let w = any_w(rs::code($white, rs::PAWN));
                let rw = rs::rmove(w);
                let mut sink = WSink::new(w);
                let res = MoveGenImpl::new(&b, &mut sink, $cval).san_pawn_capture_candidates(File::from_index(sf as usize), File::from_index(df as usize), promote);
                // pawn captures (ordinary, promoting, en passant) from file sf to the ADJACENT file df with that promotion
                let adjacent = sf + 1 == df || df + 1 == sf;
                let want = rs::ref_pseudo(&b.r, rw) && adjacent && rw.src % 8 == sf && rw.dst % 8 == df
                    && (if pk == 0 { rw.kind == rs::K_SIMPLE || rw.kind == rs::K_EP } else { rw.kind == pk });
                check_sink(&sink, res, want);
                cover!(want && rw.kind == rs::K_EP);
                cover!(want && pk == 9);
            }
        }
    };
}
san_pawn_cand!(c09_san_pawn_candidates_w, GW, true);
san_pawn_cand!(c09_san_pawn_candidates_b, GB, false);

// C01 item 4, bounded stand-in for the glue the contracts above do not reach (the macro-generated
// public generators: side dispatch, UnsafeMoveList, ArrayVec::retain with the legality checker):
// the five public legal generators end to end on every valid position with at most two men a side.
harness! {
    #[kani::unwind(38)]
    #[kani::stub(crate::attack::rook, crate::verif_anyboard::stub_rook)]
    #[kani::stub(crate::attack::bishop, crate::verif_anyboard::stub_bishop)]
    fn c01_legal_generators_end_to_end_small_boards() {
        let b = ab::any_board();
        ab::assume_valid(&b);
        vk::assume(b.white.len() <= 2 && b.black.len() <= 2);
        let white = b.r.side == Color::White;
        let c = vk::any_u8(); vk::assume(1 <= c && c <= 12);
        let w = any_w(c);
        let rw = rs::rmove(w);
        let g = vk::any_u8(); vk::assume(g < 5);
        let list = match g { 0 => legal::gen_all(&b), 1 => legal::gen_capture(&b), 2 => legal::gen_simple(&b),
                             3 => legal::gen_simple_no_promote(&b), _ => legal::gen_simple_promote(&b) };
        let mut hits = 0u32; let mut i = 0;
        while i < list.len() { if list[i] == w { hits += 1; } i += 1; }
        let occupied = rs::ci(b.r.cells[rw.dst as usize]) != 0 || rw.kind == rs::K_EP;
        let promo = rs::is_promo(rw.kind);
        let in_class = match g { 0 => true, 1 => occupied, 2 => !occupied, 3 => !occupied && !promo, _ => !occupied && promo };
        let want = rs::ref_legal(&b.r, rw) && in_class;
        assert!(hits == if want { 1 } else { 0 });
        assert!(has_legal_moves(&b) == b.has_legal_moves());
        let _ = white;
        cover!(want && g == 4);
        cover!(want && g == 1 && rw.kind == rs::K_EP);
    }
}
