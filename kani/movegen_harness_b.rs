// extension of movegen_harness.rs (separate file so that adding obligations does not re-key the
// existing ones): legality-filter glue, has_legal_moves glue, check queries per colour, C19 capacity
include!("hmacros.rs");
use super::verif_kani::{RSink, WSink};
use super::*;
use crate::verif_anyboard as ab;
use crate::verif_refspec as rs;
use crate::verif_shim as vk;

fn any_w(cell_code: u8) -> Move {
    let k = vk::any_u8(); vk::assume(1 <= k && k < 10);
    let s = ab::any_sq(); let d = ab::any_sq();
    let m = unsafe { Move::new_unchecked(rs::mk_kind(k), ab::cell(cell_code), ab::coord(s), ab::coord(d)) };
    #[cfg(not(kani))]
    vk::note(&format!("witness move kind={:?} cell={:?} src={} dst={}", m.kind(), m.src_cell(), m.src(), m.dst()));
    m
}

// C07 (b): the legality filter forwards a move to the inner sink exactly when the checker says it
// is legal, and hands back the sink's answer.  The checker's decision is imported by contract
// (C01/legal/is-legal-prefilter/*) as a free boolean: an otherwise irrelevant bit of the move.
fn stub_is_legal<'a, P: crate::legal::Prechecker>(_c: &Checker<'a, P>, mv: Move) -> bool where 'a: 'a { mv.dst().index() & 1 == 1 }
harness! {
    #[kani::unwind(14)]
    #[kani::stub(crate::legal::Checker::is_legal, stub_is_legal)]
    #[kani::stub(crate::attack::rook, crate::verif_anyboard::stub_rook)]
    #[kani::stub(crate::attack::bishop, crate::verif_anyboard::stub_bishop)]
    fn c07_legal_filter_glue() {
        let b = ab::any_board();
        ab::assume_one_king_each(&b);
        let k = vk::any_u8(); vk::assume(1 <= k && k < 10);
        let mv = ab::any_move_of_kind(rs::mk_kind(k));
        let expect = mv.dst().index() & 1 == 1;
        let mut sink = WSink::new(mv);
        { let mut f = LegalFilter::new(&b, &mut sink); let _ = f.push(mv); }
        assert!(sink.hits == if expect { 1 } else { 0 });
        let mut rsink = RSink::new(mv);
        let r = { let mut f = LegalFilter::new(&b, &mut rsink); f.push(mv) };
        assert!(r.is_err() == expect && rsink.refused == expect);
        let mut e = ErrOnFirst;
        assert!(MaybeMovePush::push(&mut e, mv).is_err());
        cover!(expect);
        cover!(!expect);
    }
}

// C07: the public query on small boards: true exactly when the legal move list is non-empty (the
// list is exact on these boards: C01/legal-gen/end-to-end-small)
harness! {
    #[kani::unwind(30)]
    #[kani::stub(crate::attack::rook, crate::verif_anyboard::stub_rook)]
    #[kani::stub(crate::attack::bishop, crate::verif_anyboard::stub_bishop)]
    fn c07_has_legal_moves_small_boards() {
        let b = ab::any_board();
        ab::assume_valid(&b);
        vk::assume(b.all.len() <= 3);
        let list = legal::gen_all(&b);
        assert!(has_legal_moves(&b) == !list.is_empty());
        assert!(b.has_legal_moves() == has_legal_moves(&b));
        cover!(list.is_empty());
        cover!(!list.is_empty());
    }
}

// C16: check queries with a constant side to move
macro_rules! c16_check_queries {
    ($name:ident, $color:expr) => {
        harness! {
            #[kani::unwind(14)]
            #[kani::stub(crate::attack::rook, crate::verif_anyboard::stub_rook)]
            #[kani::stub(crate::attack::bishop, crate::verif_anyboard::stub_bishop)]
            fn $name() {
                let b = ab::any_board_side($color);
                ab::assume_one_king_each(&b);
                let white = $color == Color::White;
                let k = rs::king_sq(&b.r.cells, white);
                let ko = rs::king_sq(&b.r.cells, !white);
                assert!(k < 64 && ko < 64);
                assert!(b.king_pos(b.r.side).index() as u8 == k);
                assert!(b.king_pos(b.r.side.inv()).index() as u8 == ko);
                let checkers = rs::ref_attackers(&b.r.cells, k, !white);
                assert!(b.checkers().as_raw() == checkers);
                assert!(b.is_check() == (checkers != 0));
                assert!(b.is_opponent_king_attacked() == rs::ref_attacked(&b.r.cells, ko, white));
                cover!(checkers.count_ones() == 2);
            }
        }
    };
}
c16_check_queries!(c16_check_queries_w, Color::White);
c16_check_queries!(c16_check_queries_b, Color::Black);

// C19: what is NOT proved is A-CAP (no valid position has more than 256 semilegal moves).  This
// native obligation only pins the capacity the assumption speaks about and evaluates the real
// generator (through the safe Vec sink) on the highest-mobility positions known, so that a capacity
// below a known witness is reported.  It is a finite evaluation, not a proof of A-CAP.
#[cfg(not(kani))]
#[test]
fn n19_capacity_and_known_high_mobility_positions() {
    let cap = MoveList::new().capacity();
    let mut n = 0u64;
    for (fen, expect) in [
        // 218 legal moves, the record for positions reachable in play
        ("R6R/3Q4/1Q4Q1/4Q3/2Q4Q/Q4Q2/pp1Q4/kBNN1KB1 w - - 0 1", 218usize),
        // king + 15 promoted queens (accepted by validation): 242 semilegal moves
        ("kbQ4Q/qp2Q3/KQ4Q1/b2Q4/Q4Q1Q/Q1Q4Q/4Q3/1Q4Q1 w - - 0 1", 242usize),
    ] {
        let b = Board::from_fen(fen).expect("witness position must be valid");
        let mut v: Vec<Move> = Vec::new();
        semilegal::gen_all_into(&b, &mut v);
        if v.len() < expect || v.len() > cap || cap != 256 {
            eprintln!("REPLAY-INPUT: fen={} semilegal moves={} MoveList capacity={}", fen, v.len(), cap);
            panic!("move list capacity below a known position's move count (or not the documented 256)");
        }
        n += 1;
    }
    eprintln!("EVALUATIONS: {}", n);
}

// C01 item 4, bounded stand-in for the macro-generated public glue (side dispatch,
// UnsafeMoveList, ArrayVec::retain with the legality checker): one public legal generator per
// harness, every valid position with the two kings and at most one more man.
macro_rules! e2e_small {
    ($name:ident, $gen:ident, $class:expr) => {
        harness! {
            #[kani::unwind(30)]
            #[kani::stub(crate::attack::rook, crate::verif_anyboard::stub_rook)]
            #[kani::stub(crate::attack::bishop, crate::verif_anyboard::stub_bishop)]
            fn $name() {
                let b = ab::any_board();
                ab::assume_valid(&b);
                vk::assume(b.all.len() <= 3);
                let c = vk::any_u8(); vk::assume(1 <= c && c <= 12);
                let w = any_w(c);
                let rw = rs::rmove(w);
                let list = legal::$gen(&b);
                let mut hits = 0u32;
                for m in list.iter() { if *m == w { hits += 1; } }
                let occupied = rs::ci(b.r.cells[rw.dst as usize]) != 0 || rw.kind == rs::K_EP;
                let promo = rs::is_promo(rw.kind);
                let class: fn(bool, bool) -> bool = $class;
                let want = rs::ref_legal(&b.r, rw) && class(occupied, promo);
                assert!(hits == if want { 1 } else { 0 });
                cover!(want);
                cover!(!want);
            }
        }
    };
}
e2e_small!(e2e_small_gen_all, gen_all, |_o, _p| true);
e2e_small!(e2e_small_gen_capture, gen_capture, |o, _p| o);
e2e_small!(e2e_small_gen_simple, gen_simple, |o, _p| !o);
e2e_small!(e2e_small_gen_simple_no_promote, gen_simple_no_promote, |o, p| !o && !p);
e2e_small!(e2e_small_gen_simple_promote, gen_simple_promote, |o, p| !o && p);

// ------------------------------------------------------------------------------------------------
// C01 item 4 / C07 / C09: the public glue around MoveGenImpl (macro-generated semilegal::* and
// legal::*, has_legal_moves, san_candidates), on ALL boards, with the generator methods and the
// legality decision imported by contract: each generator method is replaced by a stub that pushes
// one marker move naming (colour it was instantiated for, which method, a symbolic tag) into its
// sink; Checker::is_legal is a free boolean of the move (the parity of the tag).
// ------------------------------------------------------------------------------------------------
static mut TAG: u8 = 0;
// (the stubs must not mention the colour parameter C: in Kani 0.68 a stub of a generic method that
// uses C - `C::COLOR`, `TypeId::of::<C>()` - makes `<generic::White as Color>::COLOR` evaluate to
// garbage in unrelated, unstubbed functions; measured.  So the markers name the method only; that the
// instantiation is the one for the side to move is covered by the bounded end-to-end obligations.)
fn marker(which: u8) -> Move {
    unsafe { Move::new_unchecked(MoveKind::Simple, ab::cell(rs::code(true, rs::KNIGHT)), ab::coord(which), ab::coord(TAG & 63)) }
}
macro_rules! gen_stub {
    ($name:ident, $which:expr) => {
        fn $name<'a, P: MaybeMovePush, C: generic::Color>(this: &mut MoveGenImpl<'a, P, C>) -> Result<(), P::Err> where 'a: 'a {
            this.dst.push(marker($which))
        }
    };
}
gen_stub!(stub_gen_all, 0);
gen_stub!(stub_gen_capture, 1);
gen_stub!(stub_gen_simple, 2);
gen_stub!(stub_gen_simple_no_promote, 3);
gen_stub!(stub_gen_simple_promote, 4);
gen_stub!(stub_gen_for_has_legal_moves, 5);
fn stub_san_candidates<'a, P: MaybeMovePush, C: generic::Color>(this: &mut MoveGenImpl<'a, P, C>, _p: Piece, _d: Coord) -> Result<(), P::Err> where 'a: 'a {
    this.dst.push(marker(6))
}
fn stub_san_pawn_capture_candidates<'a, P: MaybeMovePush, C: generic::Color>(this: &mut MoveGenImpl<'a, P, C>, _s: File, _d: File, _p: Option<PromotePiece>) -> Result<(), P::Err> where 'a: 'a {
    this.dst.push(marker(7))
}
fn stub_is_legal_tag<'a, P: crate::legal::Prechecker>(_c: &Checker<'a, P>, mv: Move) -> bool where 'a: 'a { mv.dst().index() & 1 == 1 }

pub struct OneSink { pub got: Option<Move>, pub n: u32 }
impl MovePush for OneSink { fn push(&mut self, m: Move) { self.got = Some(m); self.n += 1; } }

macro_rules! glue_harness {
    ($name:ident, $body:expr) => {
        harness! {
            #[kani::unwind(14)]
            #[kani::stub(MoveGenImpl::gen_all, stub_gen_all)]
            #[kani::stub(MoveGenImpl::gen_capture, stub_gen_capture)]
            #[kani::stub(MoveGenImpl::gen_simple, stub_gen_simple)]
            #[kani::stub(MoveGenImpl::gen_simple_no_promote, stub_gen_simple_no_promote)]
            #[kani::stub(MoveGenImpl::gen_simple_promote, stub_gen_simple_promote)]
            #[kani::stub(MoveGenImpl::gen_for_has_legal_moves, stub_gen_for_has_legal_moves)]
            #[kani::stub(MoveGenImpl::san_candidates, stub_san_candidates)]
            #[kani::stub(MoveGenImpl::san_pawn_capture_candidates, stub_san_pawn_capture_candidates)]
            #[kani::stub(crate::legal::Checker::is_legal, stub_is_legal_tag)]
            #[kani::stub(crate::attack::rook, crate::verif_anyboard::stub_rook)]
            #[kani::stub(crate::attack::bishop, crate::verif_anyboard::stub_bishop)]
            fn $name() {
                let b = ab::any_board();
                ab::assume_one_king_each(&b);
                let tag = vk::any_u8(); vk::assume(tag < 64);
                unsafe { TAG = tag; }
                let white = b.r.side == Color::White;
                let legal_tag = tag & 1 == 1;
                let f: fn(&Board, bool, bool) = $body;
                f(&b, white, legal_tag);
                cover!(legal_tag && !white);
                cover!(!legal_tag && white);
            }
        }
    };
}
// semilegal::<g>_into: the method of the same name, instantiated for the side to move, into the caller's sink
glue_harness!(c01_glue_into, |b, white, _l| {
    let mut s = OneSink { got: None, n: 0 };
    semilegal::gen_all_into(b, &mut s); assert!(s.n == 1 && s.got == Some(marker(0)));
    semilegal::gen_capture_into(b, &mut s); assert!(s.n == 2 && s.got == Some(marker(1)));
    semilegal::gen_simple_into(b, &mut s); assert!(s.n == 3 && s.got == Some(marker(2)));
    semilegal::gen_simple_no_promote_into(b, &mut s); assert!(s.n == 4 && s.got == Some(marker(3)));
    semilegal::gen_simple_promote_into(b, &mut s); assert!(s.n == 5 && s.got == Some(marker(4)));
});
// has_legal_moves and the SAN candidate wrappers: the method for the side to move through the legality filter
glue_harness!(c01_glue_has_legal_and_san, |b, white, legal_tag| {
    assert!(has_legal_moves(b) == legal_tag);
    assert!(b.has_legal_moves() == legal_tag);
    let mut s6 = OneSink { got: None, n: 0 };
    san_candidates(b, Piece::Queen, ab::coord(0), &mut s6);
    assert!(s6.n == if legal_tag { 1 } else { 0 });
    if legal_tag { assert!(s6.got == Some(marker(6))); }
    let mut s7 = OneSink { got: None, n: 0 };
    san_pawn_capture_candidates(b, File::A, File::B, None, &mut s7);
    assert!(s7.n == if legal_tag { 1 } else { 0 });
    if legal_tag { assert!(s7.got == Some(marker(7))); }
});
// semilegal::<g> / legal::<g>: the same moves as a list, resp. that list filtered by the legality
// decision and nothing else (real UnsafeMoveList and ArrayVec::retain); one generator per harness
macro_rules! glue_list {
    ($name:ident, $g:ident, $which:expr) => {
        glue_harness!($name, |b, white, legal_tag| {
            let l = semilegal::$g(b);
            assert!(l.len() == 1 && l[0] == marker($which));
            let ll = legal::$g(b);
            assert!(ll.len() == if legal_tag { 1 } else { 0 });
            if legal_tag { assert!(ll[0] == marker($which)); }
        });
    };
}
glue_list!(c01_glue_list_gen_all, gen_all, 0);
glue_list!(c01_glue_list_gen_capture, gen_capture, 1);
glue_list!(c01_glue_list_gen_simple, gen_simple, 2);
glue_list!(c01_glue_list_gen_simple_no_promote, gen_simple_no_promote, 3);
glue_list!(c01_glue_list_gen_simple_promote, gen_simple_promote, 4);
