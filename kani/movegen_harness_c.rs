// extension of movegen_harness.rs: the list wrappers semilegal::<g> / legal::<g> (macro-generated)
// around MoveGenImpl, on ALL boards, with the generator methods, the prefilter constructor and the
// legality decision imported by contract (see movegen_harness_b.rs for the technique and for the
// Kani defect that dictates what the stubs may mention).
include!("hmacros.rs");
use super::*;
use crate::verif_anyboard as ab;
use crate::verif_refspec as rs;
use crate::verif_shim as vk;

static mut TAG: u8 = 0;
fn marker(which: u8) -> Move {
    unsafe { Move::new_unchecked(MoveKind::Simple, ab::cell(rs::code(true, rs::KNIGHT)), ab::coord(which), ab::coord(TAG & 63)) }
}
macro_rules! gen_stub {
    ($name:ident, $which:expr) => {
        fn $name<'a, P: MaybeMovePush, C: generic::Color>(this: &mut MoveGenImpl<'a, P, C>) -> Result<(), P::Err> where 'a: 'a {
            this.dst.push(marker($which))
        }
    };
}
gen_stub!(stub_gen_all, 0);
gen_stub!(stub_gen_capture, 1);
gen_stub!(stub_gen_simple, 2);
gen_stub!(stub_gen_simple_no_promote, 3);
gen_stub!(stub_gen_simple_promote, 4);
fn stub_is_legal_tag<'a, P: crate::legal::Prechecker>(_c: &Checker<'a, P>, mv: Move) -> bool where 'a: 'a { mv.dst().index() & 1 == 1 }

macro_rules! glue_list {
    ($name:ident, $g:ident, $which:expr) => {
        harness! {
            #[kani::unwind(14)]
            #[kani::stub(MoveGenImpl::gen_all, stub_gen_all)]
            #[kani::stub(MoveGenImpl::gen_capture, stub_gen_capture)]
            #[kani::stub(MoveGenImpl::gen_simple, stub_gen_simple)]
            #[kani::stub(MoveGenImpl::gen_simple_no_promote, stub_gen_simple_no_promote)]
            #[kani::stub(MoveGenImpl::gen_simple_promote, stub_gen_simple_promote)]
            #[kani::stub(crate::legal::Checker::is_legal, stub_is_legal_tag)]
            #[kani::stub(crate::legal::DefaultPrechecker::new, crate::legal::verif_kani_b::stub_prechecker_new)]
            fn $name() {
                let b = ab::any_board();
                ab::assume_one_king_each(&b);
                let tag = vk::any_u8(); vk::assume(tag < 64);
                unsafe { TAG = tag; }
                let legal_tag = tag & 1 == 1;
                let l = semilegal::$g(&b);
                assert!(l.len() == 1 && l[0] == marker($which));
                let ll = legal::$g(&b);
                assert!(ll.len() == if legal_tag { 1 } else { 0 });
                if legal_tag { assert!(ll[0] == marker($which)); }
                cover!(legal_tag && b.r.side == Color::Black);
                cover!(!legal_tag && b.r.side == Color::White);
            }
        }
    };
}
glue_list!(c01_glue_list_v2_gen_all, gen_all, 0);
glue_list!(c01_glue_list_v2_gen_capture, gen_capture, 1);
glue_list!(c01_glue_list_v2_gen_simple, gen_simple, 2);
glue_list!(c01_glue_list_v2_gen_simple_no_promote, gen_simple_no_promote, 3);
glue_list!(c01_glue_list_v2_gen_simple_promote, gen_simple_promote, 4);

// ---- the same wrappers with markers that also name the COLOUR the method was instantiated for,
// plus has_legal_moves and the two SAN candidate wrappers.  With the prefilter constructor imported
// no unstubbed function that reads C::COLOR remains reachable, which is the situation in which the
// Kani defect was observed; the covers below check that both instantiations really are reached and
// named correctly on the unchanged tree.
fn cmarker(which: u8, white: bool) -> Move {
    unsafe { Move::new_unchecked(MoveKind::Simple, ab::cell(rs::code(true, rs::KNIGHT)), ab::coord(which + if white { 8 } else { 16 }), ab::coord(TAG & 63)) }
}
macro_rules! cgen_stub {
    ($name:ident, $which:expr) => {
        fn $name<'a, P: MaybeMovePush, C: generic::Color>(this: &mut MoveGenImpl<'a, P, C>) -> Result<(), P::Err> where 'a: 'a {
            this.dst.push(cmarker($which, C::COLOR == Color::White))
        }
    };
}
cgen_stub!(cstub_gen_all, 0);
cgen_stub!(cstub_gen_capture, 1);
cgen_stub!(cstub_gen_simple, 2);
cgen_stub!(cstub_gen_simple_no_promote, 3);
cgen_stub!(cstub_gen_simple_promote, 4);
cgen_stub!(cstub_gen_for_has_legal_moves, 5);
fn cstub_san_candidates<'a, P: MaybeMovePush, C: generic::Color>(this: &mut MoveGenImpl<'a, P, C>, _p: Piece, _d: Coord) -> Result<(), P::Err> where 'a: 'a {
    this.dst.push(cmarker(6, C::COLOR == Color::White))
}
fn cstub_san_pawn_capture_candidates<'a, P: MaybeMovePush, C: generic::Color>(this: &mut MoveGenImpl<'a, P, C>, _s: File, _d: File, _p: Option<PromotePiece>) -> Result<(), P::Err> where 'a: 'a {
    this.dst.push(cmarker(7, C::COLOR == Color::White))
}
pub struct OneSink { pub got: Option<Move>, pub n: u32 }
impl MovePush for OneSink { fn push(&mut self, m: Move) { self.got = Some(m); self.n += 1; } }

harness! {
    #[kani::unwind(14)]
    #[kani::stub(MoveGenImpl::gen_all, cstub_gen_all)]
    #[kani::stub(MoveGenImpl::gen_capture, cstub_gen_capture)]
    #[kani::stub(MoveGenImpl::gen_simple, cstub_gen_simple)]
    #[kani::stub(MoveGenImpl::gen_simple_no_promote, cstub_gen_simple_no_promote)]
    #[kani::stub(MoveGenImpl::gen_simple_promote, cstub_gen_simple_promote)]
    #[kani::stub(MoveGenImpl::gen_for_has_legal_moves, cstub_gen_for_has_legal_moves)]
    #[kani::stub(MoveGenImpl::san_candidates, cstub_san_candidates)]
    #[kani::stub(MoveGenImpl::san_pawn_capture_candidates, cstub_san_pawn_capture_candidates)]
    #[kani::stub(crate::legal::Checker::is_legal, crate::legal::verif_kani_b::stub_is_legal_colour_tag)]
    #[kani::stub(crate::legal::DefaultPrechecker::new, crate::legal::verif_kani_b::stub_prechecker_new)]
    fn c01_glue_side_dispatch() {
        let b = ab::any_board();
        ab::assume_one_king_each(&b);
        let tag = vk::any_u8(); vk::assume(tag < 64);
        unsafe { TAG = tag; }
        let legal_tag = tag & 1 == 1;
        let white = b.r.side == Color::White;
        // into-sink wrappers and list wrappers: the method for the side to move
        let mut s = OneSink { got: None, n: 0 };
        semilegal::gen_all_into(&b, &mut s); assert!(s.n == 1 && s.got == Some(cmarker(0, white)));
        semilegal::gen_capture_into(&b, &mut s); assert!(s.n == 2 && s.got == Some(cmarker(1, white)));
        semilegal::gen_simple_into(&b, &mut s); assert!(s.n == 3 && s.got == Some(cmarker(2, white)));
        semilegal::gen_simple_no_promote_into(&b, &mut s); assert!(s.n == 4 && s.got == Some(cmarker(3, white)));
        semilegal::gen_simple_promote_into(&b, &mut s); assert!(s.n == 5 && s.got == Some(cmarker(4, white)));
        let l = semilegal::gen_all(&b); assert!(l.len() == 1 && l[0] == cmarker(0, white));
        let ll = legal::gen_all(&b); assert!(ll.len() == legal_tag as usize);
        if legal_tag { assert!(ll[0] == cmarker(0, white)); }
        // has_legal_moves: gen_for_has_legal_moves for the side to move through the legality filter
        assert!(has_legal_moves(&b) == legal_tag);
        assert!(b.has_legal_moves() == legal_tag);
        // SAN candidate wrappers
        let mut s6 = OneSink { got: None, n: 0 };
        san_candidates(&b, Piece::Queen, ab::coord(0), &mut s6);
        assert!(s6.n == legal_tag as u32);
        if legal_tag { assert!(s6.got == Some(cmarker(6, white))); }
        let mut s7 = OneSink { got: None, n: 0 };
        san_pawn_capture_candidates(&b, File::A, File::B, None, &mut s7);
        assert!(s7.n == legal_tag as u32);
        if legal_tag { assert!(s7.got == Some(cmarker(7, white))); }
        cover!(legal_tag && !white);
        cover!(legal_tag && white);
        cover!(!legal_tag && white);
    }
}
