// C06 (well-formedness, semilegal validation), C03/C04/C05 (make / unmake step contracts)
// Child module of chess/src/moves/base.rs: sees Move's private fields, RawUndo, do_make_move.
include!("hmacros.rs");
use super::*;
use crate::verif_anyboard as ab;
use crate::verif_refspec as rs;
use crate::verif_shim as vk;

// ------------------------------------------------------------------------------------------------
// C06 item 1: well-formedness == geometry, all 10 x 13 x 64 x 64 tuples
// ------------------------------------------------------------------------------------------------
harness! {
    fn c06_well_formed_all_tuples() {
        let k = vk::any_u8(); vk::assume(k < 10);
        let c = vk::any_u8(); vk::assume(c < 13);
        let s = ab::any_sq(); let d = ab::any_sq();
        let kind = rs::mk_kind(k);
        let mv = unsafe { Move::new_unchecked(kind, ab::cell(c), ab::coord(s), ab::coord(d)) };
        let want = rs::ref_well_formed(rs::RMove { kind: k, cell: c, src: s, dst: d });
        assert!(rs::kind_code(kind) == k);
        assert!(mv.is_well_formed() == want);
        match Move::new(kind, ab::cell(c), ab::coord(s), ab::coord(d)) {
            Ok(m) => { assert!(want); assert!(m == mv); }
            Err(_) => assert!(!want),
        }
        assert!(mv.kind() == kind && mv.src() == ab::coord(s) && mv.dst() == ab::coord(d) && mv.src_cell() == ab::cell(c));
        cover!(want && k == 5);
        cover!(want && k == 1 && c == 12);
        cover!(!want);
    }
}
harness! {
    fn c06_constructors_well_formed() {
        assert!(Move::NULL.is_well_formed());
        assert!(rs::ref_well_formed(rs::rmove(Move::NULL)));
        let col = ab::any_color();
        let side = if vk::any_bool() { CastlingSide::King } else { CastlingSide::Queen };
        let m = Move::from_castling(col, side);
        assert!(m.is_well_formed() && rs::ref_well_formed(rs::rmove(m)));
        assert!(m.kind() == if side == CastlingSide::King { MoveKind::CastlingKingside } else { MoveKind::CastlingQueenside });
        assert!(m.src_cell() == Cell::from_parts(col, Piece::King));
        // kind <-> promotion piece <-> castling side conversions
        let k = vk::any_u8(); vk::assume(k < 10);
        let kind = rs::mk_kind(k);
        assert!(kind.promote().is_some() == rs::is_promo(k));
        if let Some(p) = kind.promote() { assert!(p.index() as u8 == rs::promo_piece(k)); }
        let pc = vk::any_u8(); vk::assume(pc < 6);
        let piece = Piece::from_index(pc as usize);
        let fits = match k { 0 => false, 1 => true, 2 | 3 => pc == rs::KING, _ => pc == rs::PAWN };
        assert!(kind.matches_piece(piece) == fits);
    }
}

// ------------------------------------------------------------------------------------------------
// C06 item 2: do_is_move_semilegal == ref_pseudo on every board satisfying the invariant clauses
// it relies on, for every well-formed move; one harness per (kind, colour) so that the `match`es
// on kind and colour constant-fold (DESIGN.md 1.1 rules 6, 7).
// ------------------------------------------------------------------------------------------------
macro_rules! c06_semilegal {
    ($name:ident, $kind:expr, $color:expr) => {
        harness! {
            #[kani::unwind(14)]
            #[kani::stub(crate::attack::rook, crate::verif_anyboard::stub_rook)]
            #[kani::stub(crate::attack::bishop, crate::verif_anyboard::stub_bishop)]
            fn $name() {
                let b = ab::any_board_side($color);
                ab::assume_ep_consistent(&b);
                let mv = ab::any_move_of_kind($kind);
                let rm = rs::rmove(mv);
                vk::assume(rs::ref_well_formed(rm));
                let want = rs::ref_pseudo(&b.r, rm);
                assert!(mv.is_semilegal(&b) == want);
                assert!(mv.semi_validate(&b).is_ok() == want);
                cover!(want);
                cover!(!want);
            }
        }
    };
}
c06_semilegal!(c06_semilegal_simple_w, MoveKind::Simple, Color::White);
c06_semilegal!(c06_semilegal_simple_b, MoveKind::Simple, Color::Black);
c06_semilegal!(c06_semilegal_castle_k_w, MoveKind::CastlingKingside, Color::White);
c06_semilegal!(c06_semilegal_castle_k_b, MoveKind::CastlingKingside, Color::Black);
c06_semilegal!(c06_semilegal_castle_q_w, MoveKind::CastlingQueenside, Color::White);
c06_semilegal!(c06_semilegal_castle_q_b, MoveKind::CastlingQueenside, Color::Black);
c06_semilegal!(c06_semilegal_double_w, MoveKind::PawnDouble, Color::White);
c06_semilegal!(c06_semilegal_double_b, MoveKind::PawnDouble, Color::Black);
c06_semilegal!(c06_semilegal_ep_w, MoveKind::Enpassant, Color::White);
c06_semilegal!(c06_semilegal_ep_b, MoveKind::Enpassant, Color::Black);
c06_semilegal!(c06_semilegal_promo_n_w, MoveKind::PromoteKnight, Color::White);
c06_semilegal!(c06_semilegal_promo_n_b, MoveKind::PromoteKnight, Color::Black);
c06_semilegal!(c06_semilegal_promo_b_w, MoveKind::PromoteBishop, Color::White);
c06_semilegal!(c06_semilegal_promo_b_b, MoveKind::PromoteBishop, Color::Black);
c06_semilegal!(c06_semilegal_promo_r_w, MoveKind::PromoteRook, Color::White);
c06_semilegal!(c06_semilegal_promo_r_b, MoveKind::PromoteRook, Color::Black);
c06_semilegal!(c06_semilegal_promo_q_w, MoveKind::PromoteQueen, Color::White);
c06_semilegal!(c06_semilegal_promo_q_b, MoveKind::PromoteQueen, Color::Black);
harness! {
    #[kani::unwind(14)]
    fn c06_semilegal_null_never() {
        let b = ab::any_board();
        assert!(!Move::NULL.is_semilegal(&b));
        assert!(!rs::ref_pseudo(&b.r, rs::rmove(Move::NULL)));
    }
}

// ------------------------------------------------------------------------------------------------
// C03 / C04: make produces ref_apply, keeps the derived sets well-formed, and unmake restores
// every field bit for bit.  Pointwise at an arbitrary witness square (rule 2).
// ------------------------------------------------------------------------------------------------
fn same_raw_fields(a: &RawBoard, b: &RawBoard) -> bool {
    a.side == b.side && a.castling == b.castling && a.ep_source == b.ep_source
        && a.move_counter == b.move_counter && a.move_number == b.move_number
}
use crate::board::RawBoard;

macro_rules! c03_make_unmake {
    ($name:ident, $kind:expr, $color:expr) => {
        harness! {
            #[kani::unwind(14)]
            #[kani::stub(crate::attack::rook, crate::verif_anyboard::stub_rook)]
            #[kani::stub(crate::attack::bishop, crate::verif_anyboard::stub_bishop)]
            fn $name() {
                let b0 = ab::any_board_side($color);
                ab::assume_one_king_each(&b0);
                ab::assume_ep_consistent(&b0);
                ab::assume_castling_normal(&b0);
                // (the side not to move is not in check: no pseudo-legal move captures a king, which
                // is what makes "rights are lost exactly by king / rook moves and rook captures" exact)
                ab::assume_opponent_king_safe(&b0);
                let mv = if $kind == MoveKind::Null { Move::NULL } else { ab::any_move_of_kind($kind) };
                let rm = rs::rmove(mv);
                if $kind != MoveKind::Null { vk::assume(rs::ref_pseudo(&b0.r, rm)); }
                let w = ab::any_sq();
                let mut b = b0.clone();
                let u = unsafe { make_move_unchecked(&mut b, mv) };
                // C03: all six fields as the rules prescribe, no other square changed
                let want = rs::ref_apply(&b0.r, rm);
                assert!(b.r.cells[w as usize] == want.cells[w as usize]);
                if $kind == MoveKind::Null {
                    // the properties speak about legal moves; for the null move only "side flips,
                    // nothing else on the board changes, and undo restores everything" is demanded.
                    // (Observation, outside the listed properties: the real code resets the half-move
                    // clock of a null move when a8 - the null move's nominal destination - is occupied.)
                    assert!(b.r.side == want.side && b.r.castling == want.castling && b.r.ep_source == want.ep_source && b.r.move_number == want.move_number);
                } else {
                    assert!(same_raw_fields(&b.r, &want));
                }
                // derived sets follow the squares (wf pointwise)
                assert!(ab::wf_at(&b, w));
                // C04: undo restores everything
                unsafe { unmake_move_unchecked(&mut b, mv, u) };
                assert!(b.r.cells[w as usize] == b0.r.cells[w as usize]);
                assert!(same_raw_fields(&b.r, &b0.r));
                assert!(b.hash == b0.hash);
                assert!(b.white == b0.white && b.black == b0.black && b.all == b0.all);
                let mut k = 0; while k < 13 { assert!(b.pieces[k] == b0.pieces[k]); k += 1; }
                cover!(b0.r.move_counter == u16::MAX);
                cover!(b0.r.move_number == u16::MAX);
            }
        }
    };
}
c03_make_unmake!(c03_make_simple_w, MoveKind::Simple, Color::White);
c03_make_unmake!(c03_make_simple_b, MoveKind::Simple, Color::Black);
c03_make_unmake!(c03_make_castle_k_w, MoveKind::CastlingKingside, Color::White);
c03_make_unmake!(c03_make_castle_k_b, MoveKind::CastlingKingside, Color::Black);
c03_make_unmake!(c03_make_castle_q_w, MoveKind::CastlingQueenside, Color::White);
c03_make_unmake!(c03_make_castle_q_b, MoveKind::CastlingQueenside, Color::Black);
c03_make_unmake!(c03_make_double_w, MoveKind::PawnDouble, Color::White);
c03_make_unmake!(c03_make_double_b, MoveKind::PawnDouble, Color::Black);
c03_make_unmake!(c03_make_ep_w, MoveKind::Enpassant, Color::White);
c03_make_unmake!(c03_make_ep_b, MoveKind::Enpassant, Color::Black);
c03_make_unmake!(c03_make_promo_n_w, MoveKind::PromoteKnight, Color::White);
c03_make_unmake!(c03_make_promo_n_b, MoveKind::PromoteKnight, Color::Black);
c03_make_unmake!(c03_make_promo_b_w, MoveKind::PromoteBishop, Color::White);
c03_make_unmake!(c03_make_promo_b_b, MoveKind::PromoteBishop, Color::Black);
c03_make_unmake!(c03_make_promo_r_w, MoveKind::PromoteRook, Color::White);
c03_make_unmake!(c03_make_promo_r_b, MoveKind::PromoteRook, Color::Black);
c03_make_unmake!(c03_make_promo_q_w, MoveKind::PromoteQueen, Color::White);
c03_make_unmake!(c03_make_promo_q_b, MoveKind::PromoteQueen, Color::Black);
c03_make_unmake!(c03_make_null_w, MoveKind::Null, Color::White);
c03_make_unmake!(c03_make_null_b, MoveKind::Null, Color::Black);

// ------------------------------------------------------------------------------------------------
// C05: the incremental hash equals the from-scratch hash after every step.
// ref_hash is the from-scratch definition over the build's key tables; RawBoard::zobrist_hash is
// proved equal to it in board_harness.rs (C05/scratch).
// ------------------------------------------------------------------------------------------------
use crate::verif_anyboard::ref_hash;

macro_rules! c05_hash_step {
    ($name:ident, $kind:expr, $color:expr) => {
        harness! {
            #[kani::unwind(14)]
            #[kani::stub(crate::attack::rook, crate::verif_anyboard::stub_rook)]
            #[kani::stub(crate::attack::bishop, crate::verif_anyboard::stub_bishop)]
            fn $name() {
                let mut b = ab::any_board_side($color);
                ab::assume_ep_consistent(&b);
                ab::assume_castling_normal(&b);
                vk::assume(b.hash == ref_hash(&b.r));
                let mv = if $kind == MoveKind::Null { Move::NULL } else { ab::any_move_of_kind($kind) };
                if $kind != MoveKind::Null { vk::assume(rs::ref_pseudo(&b.r, rs::rmove(mv))); }
                let _ = unsafe { make_move_unchecked(&mut b, mv) };
                assert!(b.hash == ref_hash(&b.r));
                cover!(true);
            }
        }
    };
}
c05_hash_step!(c05_hash_simple_w, MoveKind::Simple, Color::White);
c05_hash_step!(c05_hash_simple_b, MoveKind::Simple, Color::Black);
c05_hash_step!(c05_hash_castle_k_w, MoveKind::CastlingKingside, Color::White);
c05_hash_step!(c05_hash_castle_k_b, MoveKind::CastlingKingside, Color::Black);
c05_hash_step!(c05_hash_castle_q_w, MoveKind::CastlingQueenside, Color::White);
c05_hash_step!(c05_hash_castle_q_b, MoveKind::CastlingQueenside, Color::Black);
c05_hash_step!(c05_hash_double_w, MoveKind::PawnDouble, Color::White);
c05_hash_step!(c05_hash_double_b, MoveKind::PawnDouble, Color::Black);
c05_hash_step!(c05_hash_ep_w, MoveKind::Enpassant, Color::White);
c05_hash_step!(c05_hash_ep_b, MoveKind::Enpassant, Color::Black);
c05_hash_step!(c05_hash_promo_n_w, MoveKind::PromoteKnight, Color::White);
c05_hash_step!(c05_hash_promo_n_b, MoveKind::PromoteKnight, Color::Black);
c05_hash_step!(c05_hash_promo_b_w, MoveKind::PromoteBishop, Color::White);
c05_hash_step!(c05_hash_promo_b_b, MoveKind::PromoteBishop, Color::Black);
c05_hash_step!(c05_hash_promo_r_w, MoveKind::PromoteRook, Color::White);
c05_hash_step!(c05_hash_promo_r_b, MoveKind::PromoteRook, Color::Black);
c05_hash_step!(c05_hash_promo_q_w, MoveKind::PromoteQueen, Color::White);
c05_hash_step!(c05_hash_promo_q_b, MoveKind::PromoteQueen, Color::Black);
c05_hash_step!(c05_hash_null_w, MoveKind::Null, Color::White);
c05_hash_step!(c05_hash_null_b, MoveKind::Null, Color::Black);

// ------------------------------------------------------------------------------------------------
// C01: the glue of Move::validate / semi_validate, with both deciders replaced by free booleans
// (their contracts are C06/semilegal/* and C01/legal/is-legal/*)
// ------------------------------------------------------------------------------------------------
fn stub_is_semilegal(_m: &Move, b: &Board) -> bool { b.r.move_number & 1 == 1 }
unsafe fn stub_is_legal_unchecked(_m: &Move, b: &Board) -> bool { b.r.move_counter & 1 == 1 }
harness! {
    #[kani::unwind(14)]
    #[kani::stub(Move::is_semilegal, stub_is_semilegal)]
    #[kani::stub(Move::is_legal_unchecked, stub_is_legal_unchecked)]
    fn c01_validate_glue() {
        let b = ab::any_board();
        let k = vk::any_u8(); vk::assume(k < 10);
        let mv = ab::any_move_of_kind(rs::mk_kind(k));
        let semi = b.r.move_number & 1 == 1;
        let legal = b.r.move_counter & 1 == 1;
        assert!(mv.semi_validate(&b) == if semi { Ok(()) } else { Err(ValidateError::NotSemiLegal) });
        assert!(mv.validate(&b) == if !semi { Err(ValidateError::NotSemiLegal) } else if legal { Ok(()) } else { Err(ValidateError::NotLegal) });
        cover!(semi && !legal);
    }
}
