// extension of moves_base_harness.rs: C05 as a DELTA contract (DESIGN.md 1.1 rule 3).  A SAT
// solver cannot relate two 64-term XOR folds over arrays updated at symbolic indices (measured:
// > 15 min per kind), so the step obligation states what make_move does to the stored hash in
// terms of the few squares it touches; that "delta + frame + hash_ok(before) => hash_ok(after)" is
// the fold lemma of verus/hash.vspec, proved once over an uninterpreted key function.
include!("hmacros.rs");
use super::*;
use crate::board::RawBoard;
use crate::verif_anyboard as ab;
use crate::verif_refspec as rs;
use crate::verif_shim as vk;

fn key(raw: &RawBoard, t: u8) -> u64 {
    let c = raw.cells[t as usize];
    if rs::ci(c) == 0 { 0 } else { zobrist::pieces(c, ab::coord(t)) }
}
fn ep_key(raw: &RawBoard) -> u64 { match raw.ep_source { Some(p) => zobrist::enpassant(p), None => 0 } }

macro_rules! c05_hash_delta {
    ($name:ident, $kind:expr, $color:expr) => {
        harness! {
            #[kani::unwind(14)]
            #[kani::stub(crate::attack::rook, crate::verif_anyboard::stub_rook)]
            #[kani::stub(crate::attack::bishop, crate::verif_anyboard::stub_bishop)]
            fn $name() {
                let b0 = ab::any_board_side($color);
                ab::assume_one_king_each(&b0);
                ab::assume_ep_consistent(&b0);
                ab::assume_castling_normal(&b0);
                ab::assume_opponent_king_safe(&b0);   // no king captures (see C03/make)
                let mv = if $kind == MoveKind::Null { Move::NULL } else { ab::any_move_of_kind($kind) };
                let rm = rs::rmove(mv);
                if $kind != MoveKind::Null { vk::assume(rs::ref_pseudo(&b0.r, rm)); }
                let mut b = b0.clone();
                let _ = unsafe { make_move_unchecked(&mut b, mv) };
                // the position after the move (== b.r by C03/make/*), and the squares it may differ on
                let after = rs::ref_apply(&b0.r, rm);
                let white = $color == Color::White;
                let hr = rs::home_rank(white) as u8 * 8;
                let mut touched = [64u8; 4];
                if $kind != MoveKind::Null { touched[0] = rm.src; touched[1] = rm.dst; }
                if $kind == MoveKind::Enpassant { touched[2] = (rm.dst as i8 - rs::fwd(white) * 8) as u8; }
                if $kind == MoveKind::CastlingKingside { touched[2] = hr + 7; touched[3] = hr + 5; }
                if $kind == MoveKind::CastlingQueenside { touched[2] = hr; touched[3] = hr + 3; }
                let mut d = zobrist::MOVE_SIDE ^ zobrist::castling(b0.r.castling) ^ zobrist::castling(after.castling) ^ ep_key(&b0.r) ^ ep_key(&after);
                let mut i = 0;
                while i < 4 { if touched[i] < 64 { d ^= key(&b0.r, touched[i]) ^ key(&after, touched[i]); } i += 1; }
                // frame of the reference: every other square is unchanged
                let w = ab::any_sq();
                if w != touched[0] && w != touched[1] && w != touched[2] && w != touched[3] { assert!(after.cells[w as usize] == b0.r.cells[w as usize]); }
                // the delta contract
                assert!(b.hash ^ b0.hash == d);
                cover!(b0.r.ep_source.is_some());
                cover!(true);
            }
        }
    };
}
c05_hash_delta!(c05_delta_simple_w, MoveKind::Simple, Color::White);
c05_hash_delta!(c05_delta_simple_b, MoveKind::Simple, Color::Black);
c05_hash_delta!(c05_delta_castle_k_w, MoveKind::CastlingKingside, Color::White);
c05_hash_delta!(c05_delta_castle_k_b, MoveKind::CastlingKingside, Color::Black);
c05_hash_delta!(c05_delta_castle_q_w, MoveKind::CastlingQueenside, Color::White);
c05_hash_delta!(c05_delta_castle_q_b, MoveKind::CastlingQueenside, Color::Black);
c05_hash_delta!(c05_delta_double_w, MoveKind::PawnDouble, Color::White);
c05_hash_delta!(c05_delta_double_b, MoveKind::PawnDouble, Color::Black);
c05_hash_delta!(c05_delta_ep_w, MoveKind::Enpassant, Color::White);
c05_hash_delta!(c05_delta_ep_b, MoveKind::Enpassant, Color::Black);
c05_hash_delta!(c05_delta_promo_n_w, MoveKind::PromoteKnight, Color::White);
c05_hash_delta!(c05_delta_promo_n_b, MoveKind::PromoteKnight, Color::Black);
c05_hash_delta!(c05_delta_promo_b_w, MoveKind::PromoteBishop, Color::White);
c05_hash_delta!(c05_delta_promo_b_b, MoveKind::PromoteBishop, Color::Black);
c05_hash_delta!(c05_delta_promo_r_w, MoveKind::PromoteRook, Color::White);
c05_hash_delta!(c05_delta_promo_r_b, MoveKind::PromoteRook, Color::Black);
c05_hash_delta!(c05_delta_promo_q_w, MoveKind::PromoteQueen, Color::White);
c05_hash_delta!(c05_delta_promo_q_b, MoveKind::PromoteQueen, Color::Black);
c05_hash_delta!(c05_delta_null_w, MoveKind::Null, Color::White);
c05_hash_delta!(c05_delta_null_b, MoveKind::Null, Color::Black);
