// C02 / C04 / C01: the safe application path `Make for Move` (semi_validate, apply, test the
// mover's king, roll back) - child of chess/src/moves/make.rs
include!("hmacros.rs");
use super::*;
use crate::moves::MoveKind;
use crate::types::Color;
use crate::verif_anyboard as ab;
use crate::verif_refspec as rs;
use crate::verif_shim as vk;

fn same_raw_fields(a: &crate::board::RawBoard, b: &crate::board::RawBoard) -> bool {
    a.side == b.side && a.castling == b.castling && a.ep_source == b.ep_source
        && a.move_counter == b.move_counter && a.move_number == b.move_number
}

macro_rules! c02_make_move {
    ($name:ident, $kind:expr, $color:expr) => {
        harness! {
            #[kani::unwind(14)]
            #[kani::stub(crate::attack::rook, crate::verif_anyboard::stub_rook)]
            #[kani::stub(crate::attack::bishop, crate::verif_anyboard::stub_bishop)]
            fn $name() {
                let b0 = ab::any_board_side($color);
                ab::assume_one_king_each(&b0);
                ab::assume_ep_consistent(&b0);
                ab::assume_castling_normal(&b0);
                ab::assume_opponent_king_safe(&b0);
                // any well-formed move value (the type invariant of safely constructed moves)
                let mv = if $kind == MoveKind::Null { Move::NULL } else { ab::any_move_of_kind($kind) };
                let rm = rs::rmove(mv);
                vk::assume(rs::ref_well_formed(rm));
                let want = rs::ref_legal(&b0.r, rm);
                let w = ab::any_sq();
                let mut b = b0.clone();
                match mv.make_raw(&mut b) {
                    Ok((m2, _u)) => {
                        // accepted iff legal; the applied move is the given one; result as prescribed
                        assert!(want);
                        assert!(m2 == mv);
                        let after = rs::ref_apply(&b0.r, rm);
                        assert!(b.r.cells[w as usize] == after.cells[w as usize] && same_raw_fields(&b.r, &after));
                        assert!(ab::wf_at(&b, w));
                        // the side that has just moved is not left in check
                        assert!(!b.is_opponent_king_attacked());
                    }
                    Err(_) => {
                        // refused iff not legal, and the position is exactly as it was
                        assert!(!want);
                        assert!(b.r.cells[w as usize] == b0.r.cells[w as usize] && same_raw_fields(&b.r, &b0.r));
                        assert!(b.hash == b0.hash && b.white == b0.white && b.black == b0.black && b.all == b0.all);
                        let mut k = 0; while k < 13 { assert!(b.pieces[k] == b0.pieces[k]); k += 1; }
                    }
                }
                cover!(want || $kind == MoveKind::Null);
                cover!(!want);
            }
        }
    };
}
c02_make_move!(c02_make_simple_w, MoveKind::Simple, Color::White);
c02_make_move!(c02_make_simple_b, MoveKind::Simple, Color::Black);
c02_make_move!(c02_make_castle_k_w, MoveKind::CastlingKingside, Color::White);
c02_make_move!(c02_make_castle_k_b, MoveKind::CastlingKingside, Color::Black);
c02_make_move!(c02_make_castle_q_w, MoveKind::CastlingQueenside, Color::White);
c02_make_move!(c02_make_castle_q_b, MoveKind::CastlingQueenside, Color::Black);
c02_make_move!(c02_make_double_w, MoveKind::PawnDouble, Color::White);
c02_make_move!(c02_make_double_b, MoveKind::PawnDouble, Color::Black);
c02_make_move!(c02_make_ep_w, MoveKind::Enpassant, Color::White);
c02_make_move!(c02_make_ep_b, MoveKind::Enpassant, Color::Black);
c02_make_move!(c02_make_promo_n_w, MoveKind::PromoteKnight, Color::White);
c02_make_move!(c02_make_promo_n_b, MoveKind::PromoteKnight, Color::Black);
c02_make_move!(c02_make_promo_b_w, MoveKind::PromoteBishop, Color::White);
c02_make_move!(c02_make_promo_b_b, MoveKind::PromoteBishop, Color::Black);
c02_make_move!(c02_make_promo_r_w, MoveKind::PromoteRook, Color::White);
c02_make_move!(c02_make_promo_r_b, MoveKind::PromoteRook, Color::Black);
c02_make_move!(c02_make_promo_q_w, MoveKind::PromoteQueen, Color::White);
c02_make_move!(c02_make_promo_q_b, MoveKind::PromoteQueen, Color::Black);
c02_make_move!(c02_make_null_w, MoveKind::Null, Color::White);
c02_make_move!(c02_make_null_b, MoveKind::Null, Color::Black);
