// C09 (SAN values and text), C12 (SAN parser totality) - child of chess/src/moves/san.rs
include!("hmacros.rs");
use super::*;
use crate::types::Color;
use crate::verif_anyboard as ab;
use crate::verif_refspec as rs;
use crate::verif_shim as vk;
use core::fmt::Write;

// ------------------------------------------------------------------------------------------------
// the candidate generator, as a contract: `movegen::san_candidates(b, piece, dst, sink)` pushes
// exactly the LEGAL simple moves of `piece` to `dst` (C09/candidates/* + C07/legal-filter).  A
// square is reached by at most 8 men of one kind (one per ray / offset), so a list of <= 8
// arbitrary moves covers every possible output of that call.
// ------------------------------------------------------------------------------------------------
pub const MAXC: usize = 8;
static mut CAND: [base::Move; MAXC] = [base::Move::NULL; MAXC];
static mut NCAND: usize = 0;

fn stub_san_candidates<P: MovePush>(_b: &Board, _piece: Piece, _dst: Coord, res: &mut P) {
    let n = unsafe { NCAND };
    let mut i = 0;
    while i < MAXC { if i < n { res.push(unsafe { CAND[i] }); } i += 1; }
}
fn stub_san_pawn_capture_candidates<P: MovePush>(_b: &Board, _src: File, _dst: File, _promote: Option<PromotePiece>, res: &mut P) {
    let n = unsafe { NCAND };
    let mut i = 0;
    while i < MAXC { if i < n { res.push(unsafe { CAND[i] }); } i += 1; }
}
/// arbitrary candidate list as the contract allows: n <= 8 moves of the given cell to the given
/// destination from pairwise distinct sources
fn any_candidates(cell: u8, dst: u8, kind: MoveKind) -> usize {
    let n = vk::any_u8() as usize; vk::assume(n <= MAXC);
    let mut i = 0;
    while i < MAXC {
        let s = ab::any_sq();
        unsafe { CAND[i] = base::Move::new_unchecked(kind, ab::cell(cell), ab::coord(s), ab::coord(dst)); }
        let mut j = 0;
        while j < i { if j < n && i < n { vk::assume(unsafe { CAND[j].src() != CAND[i].src() }); } j += 1; }
        i += 1;
    }
    unsafe { NCAND = n; }
    n
}

// (iii) Data::from_move, non-pawn simple moves: piece letter, minimal disambiguation among the
// legal candidates only (file if it separates, else rank, else both), capture flag, destination
harness! {
    #[kani::unwind(14)]
    #[kani::stub(crate::movegen::san_candidates, stub_san_candidates)]
    fn c09_from_move_simple_disambiguation() {
        let b = ab::any_board();
        let pc = vk::any_u8(); vk::assume(1 <= pc && pc <= 5);      // king, knight, bishop, rook, queen
        let white = b.r.side == Color::White;
        let cell = rs::code(white, pc);
        let s = ab::any_sq(); let d = ab::any_sq(); vk::assume(s != d);
        let mv = unsafe { base::Move::new_unchecked(MoveKind::Simple, ab::cell(cell), ab::coord(s), ab::coord(d)) };
        let n = any_candidates(cell, d, MoveKind::Simple);
        // mv itself is legal, hence among the candidates
        let me = vk::any_u8() as usize; vk::assume(me < n);
        vk::assume(unsafe { CAND[me] } == mv);
        let data = Data::from_move(mv, &b);
        // reference: look at the OTHER legal candidates
        let (mut any, mut same_file, mut same_rank) = (false, false, false);
        let mut i = 0;
        while i < MAXC { if i < n && i != me {
            let o = unsafe { CAND[i].src().index() as u8 };
            any = true;
            if o % 8 == s % 8 { same_file = true; }
            if o / 8 == s / 8 { same_rank = true; }
        } i += 1; }
        let want_file = any && (!same_file || same_rank);    // file separates, or neither alone does
        let want_rank = any && same_file;                    // file does not separate
        match data {
            Data::Simple { piece, file, rank, is_capture, dst } => {
                assert!(piece.index() as u8 == pc && dst == ab::coord(d));
                assert!(is_capture == (rs::ci(b.r.cells[d as usize]) != 0));
                assert!(file == if want_file { Some(ab::coord(s).file()) } else { None });
                assert!(rank == if want_rank { Some(ab::coord(s).rank()) } else { None });
            }
            _ => assert!(false, "a non-pawn simple move must be written as piece move"),
        }
        cover!(want_file && want_rank);
        cover!(want_file && !want_rank);
        cover!(!want_file && want_rank);
        cover!(!any);
    }
}

// (iv) Data::from_move, everything that needs no candidates
harness! {
    #[kani::unwind(14)]
    fn c09_from_move_pawns_castling() {
        let b = ab::any_board();
        let white = b.r.side == Color::White;
        let k = vk::any_u8(); vk::assume(k < 10);
        let cellc = if k == rs::K_CASTLE_K || k == rs::K_CASTLE_Q { rs::code(white, rs::KING) } else if k == 0 { 0 } else { rs::code(white, rs::PAWN) };
        let s = ab::any_sq(); let d = ab::any_sq();
        let mv = unsafe { base::Move::new_unchecked(rs::mk_kind(k), ab::cell(cellc), ab::coord(s), ab::coord(d)) };
        vk::assume(rs::ref_well_formed(rs::rmove(mv)));
        let data = Data::from_move(mv, &b);
        let promo = match k { 6 => Some(PromotePiece::Knight), 7 => Some(PromotePiece::Bishop), 8 => Some(PromotePiece::Rook), 9 => Some(PromotePiece::Queen), _ => None };
        match k {
            0 => assert!(data == Data::Uci(uci::Move::Null)),
            2 => assert!(data == Data::Castling(CastlingSide::King)),
            3 => assert!(data == Data::Castling(CastlingSide::Queen)),
            _ => {
                // pawn: straight => destination (+ promotion); diagonal (incl. en passant) => file x destination
                if s % 8 == d % 8 { assert!(data == Data::PawnMove { dst: ab::coord(d), promote: promo }); }
                else { assert!(data == Data::PawnCapture { src: ab::coord(s).file(), dst: ab::coord(d), promote: promo }); }
            }
        }
        cover!(k == 5);
        cover!(k == 9 && s % 8 != d % 8);
    }
}

// (vi) Data::into_move, piece moves: resolves only to a candidate that agrees with the written
// piece, destination and origin hints; reports ambiguity instead of choosing
harness! {
    #[kani::unwind(14)]
    #[kani::stub(crate::movegen::san_candidates, stub_san_candidates)]
    fn c09_into_move_simple() {
        let b = ab::any_board();
        let white = b.r.side == Color::White;
        let pc = vk::any_u8(); vk::assume(1 <= pc && pc <= 5);
        let d = ab::any_sq();
        let n = any_candidates(rs::code(white, pc), d, MoveKind::Simple);
        let fx = vk::any_u8(); vk::assume(fx <= 8);
        let rx = vk::any_u8(); vk::assume(rx <= 8);
        let file = if fx == 8 { None } else { Some(File::from_index(fx as usize)) };
        let rank = if rx == 8 { None } else { Some(Rank::from_index(rx as usize)) };
        let is_capture = vk::any_bool();
        let data = Data::Simple { piece: Piece::from_index(pc as usize), file, rank, is_capture, dst: ab::coord(d) };
        let res = data.into_move(&b);
        let agrees = |m: base::Move| -> bool {
            let o = m.src().index() as u8;
            (fx == 8 || o % 8 == fx) && (rx == 8 || o / 8 == rx)
        };
        let mut cnt = 0; let mut i = 0;
        while i < MAXC { if i < n && agrees(unsafe { CAND[i] }) { cnt += 1; } i += 1; }
        let is_cand = |m: base::Move| -> bool { let mut f = false; let mut i = 0; while i < MAXC { if i < n && unsafe { CAND[i] } == m { f = true; } i += 1; } f };
        let empty_dst = rs::ci(b.r.cells[d as usize]) == 0;
        match res {
            Ok(m) => { assert!(is_cand(m) && agrees(m) && cnt == 1); assert!(!(is_capture && empty_dst)); }
            Err(IntoMoveError::Ambiguity(m1, m2)) => { assert!(m1 != m2 && is_cand(m1) && is_cand(m2) && agrees(m1) && agrees(m2) && cnt >= 2); }
            Err(IntoMoveError::NotFound) => assert!(cnt == 0),
            Err(IntoMoveError::CaptureExpected) => assert!(is_capture && empty_dst),
            Err(_) => assert!(false, "unexpected error kind"),
        }
        cover!(cnt == 1 && fx != 8);
        cover!(cnt >= 2);
    }
}
harness! {
    #[kani::unwind(14)]
    #[kani::stub(crate::movegen::san_pawn_capture_candidates, stub_san_pawn_capture_candidates)]
    fn c09_into_move_pawn_capture_short() {
        let b = ab::any_board();
        let white = b.r.side == Color::White;
        let d = ab::any_sq();
        let k = vk::any_u8(); vk::assume(k == 1 || k == 5 || (6 <= k && k <= 9));
        let n = any_candidates(rs::code(white, rs::PAWN), d, rs::mk_kind(k));
        let sf = vk::any_u8(); vk::assume(sf < 8); let df = vk::any_u8(); vk::assume(df < 8);
        let data = Data::PawnCaptureShort { src: File::from_index(sf as usize), dst: File::from_index(df as usize), promote: None };
        let res = data.into_move(&b);
        let is_cand = |m: base::Move| -> bool { let mut f = false; let mut i = 0; while i < MAXC { if i < n && unsafe { CAND[i] } == m { f = true; } i += 1; } f };
        match res {
            Ok(m) => assert!(is_cand(m) && n == 1),
            Err(IntoMoveError::Ambiguity(m1, m2)) => assert!(m1 != m2 && is_cand(m1) && is_cand(m2) && n >= 2),
            Err(IntoMoveError::NotFound) => assert!(n == 0),
            Err(_) => assert!(false, "unexpected error kind"),
        }
    }
}

// (vi) into_move for the variants that build one move and validate it: with Move::validate
// replaced by its contract (C01/legal/is-legal + C06/semilegal: Ok iff legal by the rules)
fn stub_validate(m: &base::Move, b: &Board) -> Result<(), ValidateError> {
    let rm = rs::rmove(*m);
    if !rs::ref_pseudo(&b.r, rm) { return Err(ValidateError::NotSemiLegal); }
    if rs::ref_legal(&b.r, rm) { Ok(()) } else { Err(ValidateError::NotLegal) }
}
macro_rules! c09_into_move_built {
    ($name:ident, $color:expr) => {
        harness! {
            #[kani::unwind(14)]
            #[kani::stub(crate::moves::base::Move::validate, stub_validate)]
            #[kani::stub(crate::attack::rook, crate::verif_anyboard::stub_rook)]
            #[kani::stub(crate::attack::bishop, crate::verif_anyboard::stub_bishop)]
            fn $name() {
                let b = ab::any_board_side($color);
                ab::assume_one_king_each(&b);
                ab::assume_ep_consistent(&b);
                let white = $color == Color::White;
                let d = ab::any_sq();
                let sf = vk::any_u8(); vk::assume(sf < 8);
                let promote = match vk::any_u8() % 5 { 0 => None, 1 => Some(PromotePiece::Knight), 2 => Some(PromotePiece::Bishop), 3 => Some(PromotePiece::Rook), _ => Some(PromotePiece::Queen) };
                let pk = match promote { None => 0u8, Some(PromotePiece::Knight) => 6, Some(PromotePiece::Bishop) => 7, Some(PromotePiece::Rook) => 8, Some(PromotePiece::Queen) => 9 };
                let which = vk::any_u8() % 3;
                let data = match which {
                    0 => Data::PawnMove { dst: ab::coord(d), promote },
                    1 => Data::PawnCapture { src: File::from_index(sf as usize), dst: ab::coord(d), promote },
                    _ => Data::Castling(if vk::any_bool() { CastlingSide::King } else { CastlingSide::Queen }),
                };
                // no panic for ANY field values (square arithmetic is guarded), and soundness:
                if let Ok(m) = data.into_move(&b) {
                    let rm = rs::rmove(m);
                    assert!(rs::ref_legal(&b.r, rm));
                    match which {
                        0 => { assert!(rs::piece_of(rm.cell) == rs::PAWN && rm.dst == d && rm.src % 8 == d % 8);
                               assert!(if pk == 0 { rm.kind == rs::K_SIMPLE || rm.kind == rs::K_DOUBLE } else { rm.kind == pk }); }
                        1 => { assert!(rs::piece_of(rm.cell) == rs::PAWN && rm.dst == d && rm.src % 8 == sf && rm.src % 8 != d % 8);
                               assert!(if pk == 0 { rm.kind == rs::K_SIMPLE || rm.kind == rs::K_EP } else { rm.kind == pk }); }
                        _ => assert!(rm.kind == rs::K_CASTLE_K || rm.kind == rs::K_CASTLE_Q),
                    }
                    let _ = white;
                }
                cover!(true);
            }
        }
    };
}
c09_into_move_built!(c09_into_move_built_w, Color::White);
c09_into_move_built!(c09_into_move_built_b, Color::Black);

// ------------------------------------------------------------------------------------------------
// text level
// ------------------------------------------------------------------------------------------------
pub struct Buf12 { pub b: [u8; 12], pub n: usize }
impl core::fmt::Write for Buf12 {
    fn write_str(&mut self, s: &str) -> core::fmt::Result {
        for &c in s.as_bytes() { if self.n >= 12 { return Err(core::fmt::Error); } self.b[self.n] = c; self.n += 1; }
        Ok(())
    }
}
fn any_data_canonical() -> Data {
    // every value Data::from_move can produce for a legal move (piece never Pawn in Simple)
    let d = ab::coord(ab::any_sq());
    let f = File::from_index((vk::any_u8() % 8) as usize);
    let promote = match vk::any_u8() % 5 { 0 => None, 1 => Some(PromotePiece::Knight), 2 => Some(PromotePiece::Bishop), 3 => Some(PromotePiece::Rook), _ => Some(PromotePiece::Queen) };
    match vk::any_u8() % 4 {
        0 => Data::Castling(if vk::any_bool() { CastlingSide::King } else { CastlingSide::Queen }),
        1 => Data::PawnMove { dst: d, promote },
        2 => Data::PawnCapture { src: f, dst: d, promote },
        _ => {
            let pc = 1 + vk::any_u8() % 5;
            let fx = vk::any_u8() % 9; let rx = vk::any_u8() % 9;
            Data::Simple { piece: Piece::from_index(pc as usize),
                file: if fx == 8 { None } else { Some(File::from_index(fx as usize)) },
                rank: if rx == 8 { None } else { Some(Rank::from_index(rx as usize)) },
                is_capture: vk::any_bool(), dst: d }
        }
    }
}
harness! {
    #[kani::unwind(14)]
    fn c09_text_display_is_standard_and_parses_back() {
        let data = any_data_canonical();
        let check = match vk::any_u8() % 3 { 0 => None, 1 => Some(CheckMark::Single), _ => Some(CheckMark::Checkmate) };
        let mv = Move { data, check };
        let mut o = Buf12 { b: [0; 12], n: 0 };
        assert!(write!(o, "{}", mv).is_ok());
        // reference text, written independently
        let mut w = [0u8; 12]; let mut n = 0;
        let sq = |w: &mut [u8; 12], n: &mut usize, c: Coord| { let i = c.index() as u8; w[*n] = b'a' + i % 8; w[*n + 1] = b'8' - i / 8; *n += 2; };
        let pl = |p: PromotePiece| match p { PromotePiece::Knight => b'N', PromotePiece::Bishop => b'B', PromotePiece::Rook => b'R', PromotePiece::Queen => b'Q' };
        match data {
            Data::Castling(CastlingSide::King) => { w[0] = b'O'; w[1] = b'-'; w[2] = b'O'; n = 3; }
            Data::Castling(CastlingSide::Queen) => { w[0] = b'O'; w[1] = b'-'; w[2] = b'O'; w[3] = b'-'; w[4] = b'O'; n = 5; }
            Data::PawnMove { dst, promote } => { sq(&mut w, &mut n, dst); if let Some(p) = promote { w[n] = b'='; w[n + 1] = pl(p); n += 2; } }
            Data::PawnCapture { src, dst, promote } => { w[0] = b'a' + src.index() as u8; w[1] = b'x'; n = 2; sq(&mut w, &mut n, dst); if let Some(p) = promote { w[n] = b'='; w[n + 1] = pl(p); n += 2; } }
            Data::Simple { piece, file, rank, is_capture, dst } => {
                w[0] = match piece { Piece::King => b'K', Piece::Knight => b'N', Piece::Bishop => b'B', Piece::Rook => b'R', _ => b'Q' }; n = 1;
                if let Some(f) = file { w[n] = b'a' + f.index() as u8; n += 1; }
                if let Some(r) = rank { w[n] = b'8' - r.index() as u8; n += 1; }
                if is_capture { w[n] = b'x'; n += 1; }
                sq(&mut w, &mut n, dst);
            }
            _ => {}
        }
        match check { Some(CheckMark::Single) => { w[n] = b'+'; n += 1; } Some(CheckMark::Checkmate) => { w[n] = b'#'; n += 1; } _ => {} }
        assert!(o.n == n);
        let mut i = 0; while i < 12 { if i < n { assert!(o.b[i] == w[i]); } i += 1; }
        // parsing the text gives the value back
        let txt = unsafe { core::str::from_utf8_unchecked(&o.b[..o.n]) };
        assert!(Move::from_str(txt) == Ok(mv));
        cover!(n == 8);
    }
}
harness! {
    #[kani::unwind(10)]
    fn c12_san_from_str_total_len7() {
        // every UTF-8 string of <= 7 bytes: no panic (the slicing, the from_utf8 unwraps and the
        // length arithmetic are all obligations here), and an accepted string formats back to text
        // that parses to the same value
        let mut b = [0u8; 7];
        for i in 0..7 { b[i] = vk::any_u8(); }
        let len = vk::any_u8() as usize; vk::assume(len <= 7);
        if let Ok(s) = core::str::from_utf8(&b[..len]) {
            let r = Move::from_str(s);
            let rd = Data::from_str(s);
            if let Ok(Data::Simple { piece, .. }) = rd { assert!(piece != Piece::Pawn); }
            cover!(r.is_ok());
            cover!(r.is_err() && len == 7);
            cover!(len >= 3 && b[1] >= 0x80);
        }
    }
}
