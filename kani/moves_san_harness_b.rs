// extension of moves_san_harness.rs: the text obligations split per SAN variant (the single
// all-variant query needs > 50 min and > 16 GB)
include!("hmacros.rs");
use super::verif_kani::Buf12;
use super::*;
use crate::verif_anyboard as ab;
use crate::verif_shim as vk;
use core::fmt::Write;

fn any_promote() -> Option<PromotePiece> {
    match vk::any_u8() % 5 { 0 => None, 1 => Some(PromotePiece::Knight), 2 => Some(PromotePiece::Bishop), 3 => Some(PromotePiece::Rook), _ => Some(PromotePiece::Queen) }
}
fn any_check() -> Option<CheckMark> { match vk::any_u8() % 3 { 0 => None, 1 => Some(CheckMark::Single), _ => Some(CheckMark::Checkmate) } }
fn put_sq(w: &mut [u8; 12], n: &mut usize, c: Coord) { let i = c.index() as u8; w[*n] = b'a' + i % 8; w[*n + 1] = b'8' - i / 8; *n += 2; }
fn promo_letter(p: PromotePiece) -> u8 { match p { PromotePiece::Knight => b'N', PromotePiece::Bishop => b'B', PromotePiece::Rook => b'R', PromotePiece::Queen => b'Q' } }
fn put_check(w: &mut [u8; 12], n: &mut usize, c: Option<CheckMark>) {
    match c { Some(CheckMark::Single) => { w[*n] = b'+'; *n += 1; } Some(CheckMark::Checkmate) => { w[*n] = b'#'; *n += 1; } _ => {} }
}
/// Display gives exactly `want[..n]`, and parsing that text gives the value back
fn check_text(mv: Move, want: &[u8; 12], n: usize) {
    let mut o = Buf12 { b: [0; 12], n: 0 };
    assert!(write!(o, "{}", mv).is_ok());
    assert!(o.n == n);
    let mut i = 0; while i < 12 { if i < n { assert!(o.b[i] == want[i]); } i += 1; }
    let txt = unsafe { core::str::from_utf8_unchecked(&o.b[..o.n]) };
    assert!(Move::from_str(txt) == Ok(mv));
}
/// Display gives exactly `want[..n]` (formatting direction only)
fn check_fmt(mv: Move, want: &[u8; 12], n: usize) {
    let mut o = Buf12 { b: [0; 12], n: 0 };
    assert!(write!(o, "{}", mv).is_ok());
    assert!(o.n == n);
    let mut i = 0; while i < 12 { if i < n { assert!(o.b[i] == want[i]); } i += 1; }
}
harness! {
    #[kani::unwind(14)]
    fn c09_text_castling() {
        let side = if vk::any_bool() { CastlingSide::King } else { CastlingSide::Queen };
        let check = any_check();
        let mut w = [0u8; 12]; let mut n;
        w[0] = b'O'; w[1] = b'-'; w[2] = b'O'; n = 3;
        if side == CastlingSide::Queen { w[3] = b'-'; w[4] = b'O'; n = 5; }
        put_check(&mut w, &mut n, check);
        check_text(Move { data: Data::Castling(side), check }, &w, n);
    }
}
harness! {
    #[kani::unwind(14)]
    fn c09_fmt_castling() {
        let side = if vk::any_bool() { CastlingSide::King } else { CastlingSide::Queen };
        let check = any_check();
        let mut w = [0u8; 12]; let mut n;
        w[0] = b'O'; w[1] = b'-'; w[2] = b'O'; n = 3;
        if side == CastlingSide::Queen { w[3] = b'-'; w[4] = b'O'; n = 5; }
        put_check(&mut w, &mut n, check);
        check_fmt(Move { data: Data::Castling(side), check }, &w, n);
    }
}
harness! {
    #[kani::unwind(14)]
    fn c09_text_pawn_move() {
        let dst = ab::coord(ab::any_sq()); let promote = any_promote(); let check = any_check();
        let mut w = [0u8; 12]; let mut n = 0;
        put_sq(&mut w, &mut n, dst);
        if let Some(p) = promote { w[n] = b'='; w[n + 1] = promo_letter(p); n += 2; }
        put_check(&mut w, &mut n, check);
        check_text(Move { data: Data::PawnMove { dst, promote }, check }, &w, n);
    }
}
harness! {
    #[kani::unwind(14)]
    fn c09_fmt_pawn_move() {
        let dst = ab::coord(ab::any_sq()); let promote = any_promote(); let check = any_check();
        let mut w = [0u8; 12]; let mut n = 0;
        put_sq(&mut w, &mut n, dst);
        if let Some(p) = promote { w[n] = b'='; w[n + 1] = promo_letter(p); n += 2; }
        put_check(&mut w, &mut n, check);
        check_fmt(Move { data: Data::PawnMove { dst, promote }, check }, &w, n);
    }
}
harness! {
    #[kani::unwind(14)]
    fn c09_text_pawn_capture() {
        let dst = ab::coord(ab::any_sq()); let promote = any_promote(); let check = any_check();
        let f = File::from_index((vk::any_u8() % 8) as usize);
        let mut w = [0u8; 12]; let mut n;
        w[0] = b'a' + f.index() as u8; w[1] = b'x'; n = 2;
        put_sq(&mut w, &mut n, dst);
        if let Some(p) = promote { w[n] = b'='; w[n + 1] = promo_letter(p); n += 2; }
        put_check(&mut w, &mut n, check);
        check_text(Move { data: Data::PawnCapture { src: f, dst, promote }, check }, &w, n);
    }
}
harness! {
    #[kani::unwind(14)]
    fn c09_fmt_pawn_capture() {
        let dst = ab::coord(ab::any_sq()); let promote = any_promote(); let check = any_check();
        let f = File::from_index((vk::any_u8() % 8) as usize);
        let mut w = [0u8; 12]; let mut n;
        w[0] = b'a' + f.index() as u8; w[1] = b'x'; n = 2;
        put_sq(&mut w, &mut n, dst);
        if let Some(p) = promote { w[n] = b'='; w[n + 1] = promo_letter(p); n += 2; }
        put_check(&mut w, &mut n, check);
        check_fmt(Move { data: Data::PawnCapture { src: f, dst, promote }, check }, &w, n);
    }
}
harness! {
    #[kani::unwind(14)]
    fn c09_text_piece_move() {
        let dst = ab::coord(ab::any_sq()); let check = any_check();
        let pc = 1 + vk::any_u8() % 5;
        let fx = vk::any_u8() % 9; let rx = vk::any_u8() % 9;
        let file = if fx == 8 { None } else { Some(File::from_index(fx as usize)) };
        let rank = if rx == 8 { None } else { Some(Rank::from_index(rx as usize)) };
        let is_capture = vk::any_bool();
        let piece = Piece::from_index(pc as usize);
        let mut w = [0u8; 12]; let mut n;
        w[0] = match piece { Piece::King => b'K', Piece::Knight => b'N', Piece::Bishop => b'B', Piece::Rook => b'R', _ => b'Q' }; n = 1;
        if let Some(f) = file { w[n] = b'a' + f.index() as u8; n += 1; }
        if let Some(r) = rank { w[n] = b'8' - r.index() as u8; n += 1; }
        if is_capture { w[n] = b'x'; n += 1; }
        put_sq(&mut w, &mut n, dst);
        put_check(&mut w, &mut n, check);
        check_text(Move { data: Data::Simple { piece, file, rank, is_capture, dst }, check }, &w, n);
        cover!(n == 7);
    }
}
harness! {
    #[kani::unwind(14)]
    fn c09_fmt_piece_move() {
        let dst = ab::coord(ab::any_sq()); let check = any_check();
        let pc = 1 + vk::any_u8() % 5;
        let fx = vk::any_u8() % 9; let rx = vk::any_u8() % 9;
        let file = if fx == 8 { None } else { Some(File::from_index(fx as usize)) };
        let rank = if rx == 8 { None } else { Some(Rank::from_index(rx as usize)) };
        let is_capture = vk::any_bool();
        let piece = Piece::from_index(pc as usize);
        let mut w = [0u8; 12]; let mut n;
        w[0] = match piece { Piece::King => b'K', Piece::Knight => b'N', Piece::Bishop => b'B', Piece::Rook => b'R', _ => b'Q' }; n = 1;
        if let Some(f) = file { w[n] = b'a' + f.index() as u8; n += 1; }
        if let Some(r) = rank { w[n] = b'8' - r.index() as u8; n += 1; }
        if is_capture { w[n] = b'x'; n += 1; }
        put_sq(&mut w, &mut n, dst);
        put_check(&mut w, &mut n, check);
        check_fmt(Move { data: Data::Simple { piece, file, rank, is_capture, dst }, check }, &w, n);
        cover!(n == 7);
    }
}
// totality: every UTF-8 string of <= 6 bytes (validity decided by the byte automaton of textutil.rs)
harness! {
    #[kani::unwind(8)]
    fn c12_san_from_str_total_len6() {
        let mut b = [0u8; 6];
        for i in 0..6 { b[i] = vk::any_u8(); }
        let len = vk::any_u8() as usize; vk::assume(len <= 6);
        if crate::verif_textutil::valid_utf8(&b, len) {
            let s = crate::verif_textutil::as_str(&b, len);
            let r = Move::from_str(s);
            if let Ok(Move { data: Data::Simple { piece, .. }, .. }) = r { assert!(piece != Piece::Pawn); }
            cover!(r.is_ok());
            cover!(r.is_err() && len == 6);
            cover!(len >= 3 && b[1] >= 0x80);
        }
    }
}
harness! {
    #[kani::unwind(8)]
    fn c12_utf8_predicate_agrees_with_std() {
        let mut b = [0u8; 5];
        for i in 0..5 { b[i] = vk::any_u8(); }
        let len = vk::any_u8() as usize; vk::assume(len <= 5);
        assert!(crate::verif_textutil::valid_utf8(&b, len) == core::str::from_utf8(&b[..len]).is_ok());
        cover!(len == 5 && b[0] >= 0xF0 && crate::verif_textutil::valid_utf8(&b, len));
    }
}
