// extension of moves_san_harness.rs: Data::into_move for the variants that build one move and
// validate it, one variant and one colour per harness (the three-variant query ran out of memory)
include!("hmacros.rs");
use super::*;
use crate::types::Color;
use crate::verif_anyboard as ab;
use crate::verif_refspec as rs;
use crate::verif_shim as vk;

// Move::validate imported by its contract (C01/legal/is-legal/* + C06/semilegal/* + C01/validate-glue)
fn stub_validate(m: &base::Move, b: &Board) -> Result<(), ValidateError> {
    let rm = rs::rmove(*m);
    if !rs::ref_pseudo(&b.r, rm) { return Err(ValidateError::NotSemiLegal); }
    if rs::ref_legal(&b.r, rm) { Ok(()) } else { Err(ValidateError::NotLegal) }
}
fn any_promote() -> (Option<PromotePiece>, u8) {
    match vk::any_u8() % 5 { 0 => (None, 0), 1 => (Some(PromotePiece::Knight), 6), 2 => (Some(PromotePiece::Bishop), 7), 3 => (Some(PromotePiece::Rook), 8), _ => (Some(PromotePiece::Queen), 9) }
}
macro_rules! c09_built {
    ($name:ident, $color:expr, $which:expr) => {
        harness! {
            #[kani::unwind(14)]
            #[kani::stub(crate::moves::base::Move::validate, stub_validate)]
            #[kani::stub(crate::attack::rook, crate::verif_anyboard::stub_rook)]
            #[kani::stub(crate::attack::bishop, crate::verif_anyboard::stub_bishop)]
            fn $name() {
                let b = ab::any_board_side($color);
                ab::assume_one_king_each(&b);
                ab::assume_ep_consistent(&b);
                let d = ab::any_sq();
                let sf = vk::any_u8(); vk::assume(sf < 8);
                let (promote, pk) = any_promote();
                let data = match $which {
                    0 => Data::PawnMove { dst: ab::coord(d), promote },
                    1 => Data::PawnCapture { src: File::from_index(sf as usize), dst: ab::coord(d), promote },
                    _ => Data::Castling(if vk::any_bool() { CastlingSide::King } else { CastlingSide::Queen }),
                };
                // no panic for ANY field values (square arithmetic is guarded), and soundness:
                if let Ok(m) = data.into_move(&b) {
                    let rm = rs::rmove(m);
                    assert!(rs::ref_legal(&b.r, rm));
                    match $which {
                        0 => { assert!(rs::piece_of(rm.cell) == rs::PAWN && rm.dst == d && rm.src % 8 == d % 8);
                               assert!(if pk == 0 { rm.kind == rs::K_SIMPLE || rm.kind == rs::K_DOUBLE } else { rm.kind == pk }); }
                        1 => { assert!(rs::piece_of(rm.cell) == rs::PAWN && rm.dst == d && rm.src % 8 == sf && rm.src % 8 != d % 8);
                               assert!(if pk == 0 { rm.kind == rs::K_SIMPLE || rm.kind == rs::K_EP } else { rm.kind == pk }); }
                        _ => assert!(rm.kind == rs::K_CASTLE_K || rm.kind == rs::K_CASTLE_Q),
                    }
                }
                cover!(true);
            }
        }
    };
}
c09_built!(c09_built_pawn_move_w, Color::White, 0);
c09_built!(c09_built_pawn_move_b, Color::Black, 0);
c09_built!(c09_built_pawn_capture_w, Color::White, 1);
c09_built!(c09_built_pawn_capture_b, Color::Black, 1);
c09_built!(c09_built_castling_w, Color::White, 2);
c09_built!(c09_built_castling_b, Color::Black, 2);

// Data::from_move for everything that needs no candidates (pawn moves, en passant, castling, null).
// The candidate generator is replaced by a no-op: it is not called on these paths, but without the
// stub its whole body stays in the formula (the piece is symbolic until the solver runs).
fn stub_no_candidates<P: MovePush>(_b: &Board, _piece: Piece, _dst: Coord, _res: &mut P) {}
harness! {
    #[kani::unwind(14)]
    #[kani::stub(crate::movegen::san_candidates, stub_no_candidates)]
    fn c09_from_move_pawns_castling_v2() {
        let b = ab::any_board();
        let white = b.r.side == Color::White;
        let k = vk::any_u8(); vk::assume(k < 10);
        let cellc = if k == rs::K_CASTLE_K || k == rs::K_CASTLE_Q { rs::code(white, rs::KING) } else if k == 0 { 0 } else { rs::code(white, rs::PAWN) };
        let s = ab::any_sq(); let d = ab::any_sq();
        let mv = unsafe { base::Move::new_unchecked(rs::mk_kind(k), ab::cell(cellc), ab::coord(s), ab::coord(d)) };
        vk::assume(rs::ref_well_formed(rs::rmove(mv)));
        let data = Data::from_move(mv, &b);
        let promo = match k { 6 => Some(PromotePiece::Knight), 7 => Some(PromotePiece::Bishop), 8 => Some(PromotePiece::Rook), 9 => Some(PromotePiece::Queen), _ => None };
        match k {
            0 => assert!(data == Data::Uci(uci::Move::Null)),
            2 => assert!(data == Data::Castling(CastlingSide::King)),
            3 => assert!(data == Data::Castling(CastlingSide::Queen)),
            _ => {
                // pawn: straight => destination (+ promotion); diagonal (incl. en passant) => file x destination
                if s % 8 == d % 8 { assert!(data == Data::PawnMove { dst: ab::coord(d), promote: promo }); }
                else { assert!(data == Data::PawnCapture { src: ab::coord(s).file(), dst: ab::coord(d), promote: promo }); }
            }
        }
        cover!(k == 5);
        cover!(k == 9 && s % 8 != d % 8);
    }
}

// Data::into_move for piece moves, against every candidate list the contract of san_candidates
// allows (<= 8 moves of that piece to that square from distinct sources).  Leaner formulation of
// moves_san_harness.rs::c09_into_move_simple (which ran out of memory in CBMC's propositional
// reduction): the expected answer is computed in one pass over the list.
static mut CAND2: [base::Move; 8] = [base::Move::NULL; 8];
static mut NCAND2: usize = 0;
fn stub_candidates2<P: MovePush>(_b: &Board, _piece: Piece, _dst: Coord, res: &mut P) {
    let n = unsafe { NCAND2 };
    let mut i = 0;
    while i < 8 { if i < n { res.push(unsafe { CAND2[i] }); } i += 1; }
}
harness! {
    #[kani::unwind(14)]
    #[kani::stub(crate::movegen::san_candidates, stub_candidates2)]
    fn c09_into_move_simple_v2() {
        let b = ab::any_board();
        let white = b.r.side == Color::White;
        let pc = vk::any_u8(); vk::assume(1 <= pc && pc <= 5);
        let d = ab::any_sq();
        let n = vk::any_u8() as usize; vk::assume(n <= 8);
        let mut srcs = [0u8; 8];
        let mut i = 0;
        while i < 8 {
            srcs[i] = ab::any_sq();
            let mut j = 0; while j < i { vk::assume(srcs[j] != srcs[i]); j += 1; }
            unsafe { CAND2[i] = base::Move::new_unchecked(MoveKind::Simple, ab::cell(rs::code(white, pc)), ab::coord(srcs[i]), ab::coord(d)); }
            i += 1;
        }
        unsafe { NCAND2 = n; }
        let fx = vk::any_u8(); vk::assume(fx <= 8);
        let rx = vk::any_u8(); vk::assume(rx <= 8);
        let file = if fx == 8 { None } else { Some(File::from_index(fx as usize)) };
        let rank = if rx == 8 { None } else { Some(Rank::from_index(rx as usize)) };
        let is_capture = vk::any_bool();
        let data = Data::Simple { piece: Piece::from_index(pc as usize), file, rank, is_capture, dst: ab::coord(d) };
        let res = data.into_move(&b);
        // expected: the candidates (in push order) that agree with the written origin hints
        let (mut cnt, mut first, mut second) = (0u32, 64u8, 64u8);
        let mut i = 0;
        while i < 8 { if i < n {
            let o = srcs[i];
            if (fx == 8 || o % 8 == fx) && (rx == 8 || o / 8 == rx) {
                if cnt == 0 { first = o; } else if cnt == 1 { second = o; }
                cnt += 1;
            }
        } i += 1; }
        let empty_dst = rs::ci(b.r.cells[d as usize]) == 0;
        match res {
            Err(IntoMoveError::CaptureExpected) => assert!(is_capture && empty_dst),
            Ok(m) => { assert!(!(is_capture && empty_dst)); assert!(cnt == 1 && m.src().index() as u8 == first && m.dst().index() as u8 == d && m.kind() == MoveKind::Simple); }
            Err(IntoMoveError::NotFound) => assert!(cnt == 0),
            // reports ambiguity, naming two different agreeing candidates, rather than choosing
            Err(IntoMoveError::Ambiguity(m1, m2)) => assert!(cnt >= 2 && m2.src().index() as u8 == first && m1.src().index() as u8 == second && first != second),
            Err(_) => assert!(false, "unexpected error kind"),
        }
        cover!(cnt == 1 && fx != 8);
        cover!(cnt >= 3);
    }
}
