// extension of moves_san_harness.rs: SAN parser totality on every UTF-8 string of <= 4 bytes
// (quick tier; <= 6 and <= 7 bytes are thorough-tier obligations)
include!("hmacros.rs");
use super::*;
use crate::verif_shim as vk;

harness! {
    #[kani::unwind(6)]
    fn c12_san_from_str_total_len4() {
        let mut b = [0u8; 4];
        for i in 0..4 { b[i] = vk::any_u8(); }
        let len = vk::any_u8() as usize; vk::assume(len <= 4);
        if crate::verif_textutil::valid_utf8(&b, len) {
            let s = crate::verif_textutil::as_str(&b, len);
            let r = Move::from_str(s);
            let rd = Data::from_str(s);
            if let Ok(Data::Simple { piece, .. }) = rd { assert!(piece != Piece::Pawn); }
            cover!(r.is_ok());
            cover!(r.is_err() && len == 4);
            cover!(len >= 3 && b[1] >= 0x80);
        }
    }
}
