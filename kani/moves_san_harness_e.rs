// extension of moves_san_harness.rs: SAN parser totality by exhaustive NATIVE evaluation (quick tier;
// the symbolic-string obligations for <= 4 / 6 / 7 bytes need 13 minutes and more: thorough).
// Set 1: every UTF-8 string of <= 3 bytes.  Set 2: every string of <= 5 characters over the SAN
// alphabet plus two multi-byte characters.  A value that is returned must print to text that parses
// back to the same value.
include!("hmacros.rs");
use super::*;

#[cfg(not(kani))]
fn probe(s: &str, n: &mut u64, ok: &mut u64) {
    *n += 1;
    let r = std::panic::catch_unwind(|| (Move::from_str(s).ok(), Data::from_str(s).ok()));
    match r {
        Err(_) => { eprintln!("REPLAY-INPUT: SAN text {:?} (bytes {:?}) makes the parser panic", s, s.as_bytes()); panic!("SAN parser panicked"); }
        Ok((m, d)) => {
            if let Some(d) = d {
                *ok += 1;
                let t = d.to_string();
                if Data::from_str(&t).ok() != Some(d) { eprintln!("REPLAY-INPUT: SAN text {:?} parses to {:?}, which prints {:?}, which does not parse back to it", s, d, t); panic!("SAN data print/parse"); }
            }
            if let Some(m) = m {
                let t = m.to_string();
                if Move::from_str(&t).ok() != Some(m) { eprintln!("REPLAY-INPUT: SAN text {:?} parses to {:?}, which prints {:?}, which does not parse back to it", s, m, t); panic!("SAN move print/parse"); }
            }
        }
    }
}

#[cfg(not(kani))]
#[test]
fn n12_san_from_str_total_native() {
    std::panic::set_hook(Box::new(|_| {}));
    let (mut n, mut ok) = (0u64, 0u64);
    // set 1: all byte strings of <= 3 bytes that are valid UTF-8
    probe("", &mut n, &mut ok);
    for a in 0..=255u8 {
        if let Ok(s) = core::str::from_utf8(&[a]) { probe(s, &mut n, &mut ok); }
        for b in 0..=255u8 {
            if let Ok(s) = core::str::from_utf8(&[a, b]) { probe(s, &mut n, &mut ok); }
            // prune: a two-byte prefix that is neither valid nor an incomplete sequence has no valid extension
            for c in 0..=255u8 {
                if let Ok(s) = core::str::from_utf8(&[a, b, c]) { probe(s, &mut n, &mut ok); }
            }
        }
    }
    // set 2: <= 5 characters over the SAN alphabet and two multi-byte characters
    let alpha: Vec<char> = "abcdefgh12345678NBRQKPxO0-+#=?!\u{e9}\u{20ac}".chars().collect();
    let k = alpha.len();
    for len in 4..=5usize {
        let total = k.pow(len as u32);
        for code in 0..total {
            let mut c = code; let mut s = String::with_capacity(12);
            for _ in 0..len { s.push(alpha[c % k]); c /= k; }
            probe(&s, &mut n, &mut ok);
        }
    }
    let _ = std::panic::take_hook();
    assert!(ok > 1000);
    eprintln!("EVALUATIONS: {}", n);
}

// C09 bounded stand-in for the resolution of PIECE moves (the symbolic obligation
// C09/into-move/simple exceeds CBMC's memory here: thorough): on positions rich in ambiguity, every
// legal move is written, parsed and resolved back to itself; distinct legal moves get distinct
// texts; the text uses the least disambiguation that is unique among the legal moves.
#[cfg(not(kani))]
const SAN_POSITIONS: &[&str] = &[
    "rnbqkbnr/pppppppp/8/8/8/8/PPPPPPPP/RNBQKBNR w KQkq - 0 1",
    "r3k2r/p1ppqpb1/bn2pnp1/3PN3/1p2P3/2N2Q1p/PPPBBPPP/R3K2R w KQkq - 0 1",
    "4k3/8/8/8/8/8/8/Q2QK2Q w - - 0 1",
    "4k3/8/8/Q7/8/8/8/Q2QK3 w - - 0 1",
    "Q6Q/8/8/8/8/6k1/8/Q3K3 w - - 0 1",
    "1k6/8/8/8/N3N3/8/N3N3/4K3 w - - 0 1",
    "4k3/8/2n1n3/8/2n1n3/8/8/4K3 b - - 0 1",
    "R6R/8/8/8/8/6k1/8/R3K3 w - - 0 1",
    "k7/8/8/3pP3/8/8/8/4K2R w K d6 0 1",
    "4k3/1P4P1/8/8/8/8/1p4p1/R3K2R w KQ - 0 1",
    "r3k2r/8/8/8/8/8/8/4K3 b kq - 0 1",
    "4k3/8/8/8/2B1B3/8/2B1B3/4K3 w - - 0 1",
    "6k1/8/8/8/8/5n2/8/4K2R w K - 0 1",
    "8/8/8/8/8/1k6/2q5/K7 b - - 0 1",
];
#[cfg(not(kani))]
#[test]
fn n09_san_roundtrip_positions() {
    use crate::movegen::legal;
    let mut n = 0u64;
    for fen in SAN_POSITIONS {
        let b = Board::from_fen(fen).unwrap();
        let moves = legal::gen_all(&b);
        let mut texts: Vec<(String, base::Move)> = Vec::new();
        for mv in moves.iter() {
            let san = Move::from_move(*mv, &b).unwrap();
            let t = san.to_string();
            let back = Move::from_str(&t).unwrap();
            let res = back.into_move(&b);
            if back != san || res.as_ref().ok() != Some(mv) {
                eprintln!("REPLAY-INPUT: position {:?}, move {}: SAN text {:?} parses to {:?} and resolves to {:?}", fen, mv, t, back, res);
                panic!("SAN round trip");
            }
            // minimal disambiguation for piece moves: dropping the hint must be ambiguous or wrong
            if let Data::Simple { piece, dst, is_capture: capture, file: from_file, rank: from_rank } = san.data {
                let rivals = moves.iter().filter(|o| o.kind() == base::MoveKind::Simple && o.dst() == dst && o.src_cell() == mv.src_cell() && o.src() != mv.src()).count();
                let same_file = moves.iter().filter(|o| o.kind() == base::MoveKind::Simple && o.dst() == dst && o.src_cell() == mv.src_cell() && o.src() != mv.src() && o.src().file() == mv.src().file()).count();
                let same_rank = moves.iter().filter(|o| o.kind() == base::MoveKind::Simple && o.dst() == dst && o.src_cell() == mv.src_cell() && o.src() != mv.src() && o.src().rank() == mv.src().rank()).count();
                let want = if rivals == 0 { (false, false) } else if same_file == 0 { (true, false) } else if same_rank == 0 { (false, true) } else { (true, true) };
                if (from_file.is_some(), from_rank.is_some()) != want || capture != b.get(dst).is_occupied() || piece == Piece::Pawn {
                    eprintln!("REPLAY-INPUT: position {:?}, move {}: SAN {:?} has hints (file {:?}, rank {:?}), expected (file, rank) = {:?} among {} rivals", fen, mv, t, from_file, from_rank, want, rivals);
                    panic!("SAN minimal disambiguation");
                }
            }
            texts.push((t, *mv));
            n += 1;
        }
        for i in 0..texts.len() { for j in 0..i { if texts[i].0 == texts[j].0 {
            eprintln!("REPLAY-INPUT: position {:?}: moves {} and {} share the SAN text {:?}", fen, texts[i].1, texts[j].1, texts[i].0);
            panic!("SAN texts not distinct");
        } } }
    }
    eprintln!("EVALUATIONS: {}", n);
}
