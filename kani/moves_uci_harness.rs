// C10 (UCI values and text), C12 (UCI parser totality) - child of chess/src/moves/uci.rs
include!("hmacros.rs");
use super::*;
use crate::types::Cell;
use crate::verif_anyboard as ab;
use crate::verif_refspec as rs;
use crate::verif_shim as vk;
use core::fmt::Write;

fn promo_code(p: Option<PromotePiece>) -> u8 {
    match p { None => 0, Some(PromotePiece::Knight) => rs::K_PROMO_N, Some(PromotePiece::Bishop) => rs::K_PROMO_B,
              Some(PromotePiece::Rook) => rs::K_PROMO_R, Some(PromotePiece::Queen) => rs::K_PROMO_Q }
}
fn any_promo() -> Option<PromotePiece> {
    match vk::any_u8() % 5 { 0 => None, 1 => Some(PromotePiece::Knight), 2 => Some(PromotePiece::Bishop), 3 => Some(PromotePiece::Rook), _ => Some(PromotePiece::Queen) }
}

// (1)+(2): a UCI value resolves to a move with the same squares and promotion, and if any
// pseudo-legal move of the position has those squares and that promotion, it resolves to exactly
// that move (so the kind is inferred correctly and the round trip holds).
macro_rules! c10_into_move {
    ($name:ident, $color:expr) => {
        harness! {
            #[kani::unwind(14)]
            #[kani::stub(crate::attack::rook, crate::verif_anyboard::stub_rook)]
            #[kani::stub(crate::attack::bishop, crate::verif_anyboard::stub_bishop)]
            fn $name() {
                let b = ab::any_board_side($color);
                ab::assume_ep_consistent(&b);
                let s = ab::any_sq(); let d = ab::any_sq();
                let promote = any_promo();
                let u = Move::Move { src: ab::coord(s), dst: ab::coord(d), promote };
                let r = u.into_move(&b);
                if let Ok(m) = r {
                    assert!(m.src() == ab::coord(s) && m.dst() == ab::coord(d));
                    assert!(m.src_cell() == b.r.cells[s as usize]);
                    let k = rs::kind_code(m.kind());
                    assert!(if rs::is_promo(k) { promo_code(promote) == k } else { promote.is_none() });
                    assert!(rs::ref_well_formed(rs::rmove(m)));
                    // writing it back gives the same UCI value
                    assert!(Move::from(m) == u);
                }
                // an arbitrary candidate kind: if that candidate is pseudo-legal here and written
                // as this UCI value, reading the value back yields the candidate itself
                let k = vk::any_u8(); vk::assume(1 <= k && k < 10);
                let cand = rs::RMove { kind: k, cell: rs::ci(b.r.cells[s as usize]), src: s, dst: d };
                let cand_promo = if rs::is_promo(k) { k } else { 0 };
                if rs::ref_pseudo(&b.r, cand) && cand_promo == promo_code(promote) {
                    match r {
                        Ok(m) => assert!(rs::rmove(m) == cand),
                        Err(_) => assert!(false, "a pseudo-legal move exists but the UCI value was refused"),
                    }
                }
                cover!(rs::ref_pseudo(&b.r, cand) && k == rs::K_EP);
                cover!(rs::ref_pseudo(&b.r, cand) && k == rs::K_CASTLE_Q);
                cover!(r.is_err());
            }
        }
    };
}
c10_into_move!(c10_into_move_w, Color::White);
c10_into_move!(c10_into_move_b, Color::Black);

harness! {
    #[kani::unwind(14)]
    fn c10_null_uci() {
        let b = ab::any_board();
        assert!(Move::Null.into_move(&b) == Ok(base::Move::NULL));
        assert!(Move::from(base::Move::NULL) == Move::Null);
        // never accepted as a move to play
        assert!(base::Move::NULL.semi_validate(&b).is_err());
        assert!(base::Move::NULL.validate(&b).is_err());
    }
}

// (3) text: all UTF-8 strings of <= 6 bytes (this contains the whole 20 481-string domain of the
// property, and every string the parser can accept)
harness! {
    #[kani::unwind(8)]
    fn c10_uci_from_str_all_short_strings() {
        let mut b = [0u8; 6];
        for i in 0..6 { b[i] = vk::any_u8(); }
        let len = vk::any_u8() as usize; vk::assume(len <= 6);
        if let Ok(s) = core::str::from_utf8(&b[..len]) {
            let sq_ok = |f: u8, r: u8| (b'a'..=b'h').contains(&f) && (b'1'..=b'8').contains(&r);
            let null = len == 4 && b[0] == b'0' && b[1] == b'0' && b[2] == b'0' && b[3] == b'0';
            let plain = (len == 4 || len == 5) && sq_ok(b[0], b[1]) && sq_ok(b[2], b[3])
                && (len == 4 || b[4] == b'n' || b[4] == b'b' || b[4] == b'r' || b[4] == b'q');
            match Move::from_str(s) {
                Ok(Move::Null) => assert!(null),
                Ok(Move::Move { src, dst, promote }) => {
                    assert!(plain);
                    assert!(src.index() as u8 == (b'8' - b[1]) * 8 + (b[0] - b'a'));
                    assert!(dst.index() as u8 == (b'8' - b[3]) * 8 + (b[2] - b'a'));
                    let pc = match promote { None => 0u8, Some(PromotePiece::Knight) => b'n', Some(PromotePiece::Bishop) => b'b', Some(PromotePiece::Rook) => b'r', Some(PromotePiece::Queen) => b'q' };
                    assert!(if len == 5 { pc == b[4] } else { pc == 0 });
                }
                Err(_) => assert!(!null && !plain),
            }
            cover!(plain && len == 5);
            cover!(len == 6);
            cover!(len == 5 && b[1] >= 0x80);
        }
    }
}
pub struct Buf8 { pub b: [u8; 8], pub n: usize }
impl core::fmt::Write for Buf8 {
    fn write_str(&mut self, s: &str) -> core::fmt::Result {
        for &c in s.as_bytes() { if self.n >= 8 { return Err(core::fmt::Error); } self.b[self.n] = c; self.n += 1; }
        Ok(())
    }
}
harness! {
    #[kani::unwind(8)]
    fn c10_uci_display_parses_back() {
        let s = ab::any_sq(); let d = ab::any_sq();
        let u = if vk::any_bool() { Move::Null } else { Move::Move { src: ab::coord(s), dst: ab::coord(d), promote: any_promo() } };
        let mut o = Buf8 { b: [0; 8], n: 0 };
        assert!(write!(o, "{}", u).is_ok());
        let txt = unsafe { core::str::from_utf8_unchecked(&o.b[..o.n]) };
        assert!(o.n == 4 || o.n == 5);
        match u {
            Move::Null => assert!(o.n == 4 && o.b[0] == b'0' && o.b[3] == b'0'),
            Move::Move { src, dst, promote } => {
                assert!(o.b[0] == b'a' + s % 8 && o.b[1] == b'8' - s / 8 && o.b[2] == b'a' + d % 8 && o.b[3] == b'8' - d / 8);
                assert!((o.n == 5) == promote.is_some());
            }
        }
        assert!(Move::from_str(txt) == Ok(u));
    }
}
