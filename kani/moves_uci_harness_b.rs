// extension of moves_uci_harness.rs: UCI text totality by exhaustive NATIVE evaluation (the symbolic
// obligation C10/text/from-str covers every string of <= 6 bytes but can exceed the quick deadline
// on a changed parser).  Set 1: every UTF-8 string of <= 3 bytes.  Set 2: every string of 4 or 5
// characters over the UCI alphabet plus two multi-byte characters (contains the property's whole
// 20 481-string domain and every input of defect D2).
include!("hmacros.rs");
use super::*;

#[cfg(not(kani))]
fn probe(s: &str, n: &mut u64, ok: &mut u64) {
    *n += 1;
    match std::panic::catch_unwind(|| Move::from_str(s).ok()) {
        Err(_) => { eprintln!("REPLAY-INPUT: UCI text {:?} (bytes {:?}) makes the parser panic", s, s.as_bytes()); panic!("UCI parser panicked"); }
        Ok(Some(m)) => {
            *ok += 1;
            let t = m.to_string();
            // accepted text is canonical: it prints back as itself and parses back to the same value
            if t != s || Move::from_str(&t).ok() != Some(m) { eprintln!("REPLAY-INPUT: UCI text {:?} parses to {:?}, which prints {:?}", s, m, t); panic!("UCI print/parse"); }
        }
        Ok(None) => {
            // refused text must not be one of the canonical forms: square square [nbrq], or 0000
            let b = s.as_bytes();
            let sq = |f: u8, r: u8| (b'a'..=b'h').contains(&f) && (b'1'..=b'8').contains(&r);
            let canon = s == "0000" || ((b.len() == 4 || b.len() == 5) && sq(b[0], b[1]) && sq(b[2], b[3]) && (b.len() == 4 || b"nbrq".contains(&b[4])));
            if canon { eprintln!("REPLAY-INPUT: canonical UCI text {:?} is refused", s); panic!("UCI refuses a canonical text"); }
        }
    }
}

#[cfg(not(kani))]
#[test]
fn n10_uci_from_str_total_native() {
    std::panic::set_hook(Box::new(|_| {}));
    let (mut n, mut ok) = (0u64, 0u64);
    probe("", &mut n, &mut ok);
    for a in 0..=255u8 {
        if let Ok(s) = core::str::from_utf8(&[a]) { probe(s, &mut n, &mut ok); }
        for b in 0..=255u8 {
            if let Ok(s) = core::str::from_utf8(&[a, b]) { probe(s, &mut n, &mut ok); }
            for c in 0..=255u8 { if let Ok(s) = core::str::from_utf8(&[a, b, c]) { probe(s, &mut n, &mut ok); } }
        }
    }
    let alpha: Vec<char> = "abcdefgh12345678nbrqk0NQ-\u{e9}\u{20ac}".chars().collect();
    let k = alpha.len();
    for len in 4..=5usize {
        for code in 0..k.pow(len as u32) {
            let mut c = code; let mut s = String::with_capacity(16);
            for _ in 0..len { s.push(alpha[c % k]); c /= k; }
            probe(&s, &mut n, &mut ok);
        }
    }
    let _ = std::panic::take_hook();
    assert!(ok >= 20481);
    eprintln!("EVALUATIONS: {}", n);
}
