// C15 helpers: whole-set pawn advances against per-square geometry.
include!("hmacros.rs");
use super::*;
use crate::verif_refspec as rs;
use crate::verif_shim as vk;

harness! {
    fn c15_pawn_advances() {
        let white = vk::any_bool();
        let c = if white { Color::White } else { Color::Black };
        let set = vk::any_u64();
        let t = vk::any_u8(); vk::assume(t < 64);
        let (f, r) = ((t % 8) as i8, (t / 8) as i8);
        let fw = rs::fwd(white);
        // t is in the advanced set iff the square it came from is in the original set
        let from_fwd = rs::sq_at(f, r - fw);
        let from_left = rs::sq_at(f + 1, r - fw);   // a pawn capturing towards the a-file came from the right
        let from_right = rs::sq_at(f - 1, r - fw);
        let b = Bitboard::from_raw(set);
        assert!(advance_forward(c, b).has(unsafe { crate::types::Coord::from_index_unchecked(t as usize) }) == match from_fwd { Some(s) => rs::on(set, s), None => false });
        assert!(advance_left(c, b).has(unsafe { crate::types::Coord::from_index_unchecked(t as usize) }) == match from_left { Some(s) => rs::on(set, s), None => false });
        assert!(advance_right(c, b).has(unsafe { crate::types::Coord::from_index_unchecked(t as usize) }) == match from_right { Some(s) => rs::on(set, s), None => false });
    }
}
