// Reference semantics of chess over plain squares (DESIGN.md 2.4).  This file *is* the meaning
// of "the rules of chess" for every obligation: written from the rules and from the property
// statements, over `[Cell; 64]` + side + rights + en-passant mark, with no bitboard tables, no
// magic lookups and no unsafe.  It shares with the implementation only the value types of
// chess_base (Cell / Coord / Color / CastlingRights and their index encodings, all under contract
// in C20).
//
// Square index = 8 * rank_index + file_index, rank_index 0 is the EIGHTH rank, so White pawns
// move towards smaller indices.

use crate::board::RawBoard;
use crate::moves::{Move, MoveKind};
use crate::types::{CastlingRights, CastlingSide, Cell, Color, Coord, DrawReason, Outcome, Piece, WinReason};

pub const EMPTY: u8 = 0;
pub const PAWN: u8 = 0;
pub const KING: u8 = 1;
pub const KNIGHT: u8 = 2;
pub const BISHOP: u8 = 3;
pub const ROOK: u8 = 4;
pub const QUEEN: u8 = 5;

pub const KNIGHT_D: [(i8, i8); 8] = [(1, 2), (2, 1), (2, -1), (1, -2), (-1, -2), (-2, -1), (-2, 1), (-1, 2)];
pub const KING_D: [(i8, i8); 8] = [(1, 0), (1, 1), (0, 1), (-1, 1), (-1, 0), (-1, -1), (0, -1), (1, -1)];
pub const ROOK_D: [(i8, i8); 4] = [(1, 0), (-1, 0), (0, 1), (0, -1)];
pub const BISHOP_D: [(i8, i8); 4] = [(1, 1), (1, -1), (-1, 1), (-1, -1)];

#[inline]
pub fn ci(c: Cell) -> u8 { c.index() as u8 }
/// cell code of (colour, piece): 1 + 6*colour + piece  (C20/types/cell-parts)
#[inline]
pub fn code(white: bool, piece: u8) -> u8 { if white { 1 + piece } else { 7 + piece } }
#[inline]
pub fn is_white_code(c: u8) -> bool { 1 <= c && c <= 6 }
#[inline]
pub fn is_black_code(c: u8) -> bool { 7 <= c && c <= 12 }
#[inline]
pub fn has_colour(c: u8, white: bool) -> bool { if white { is_white_code(c) } else { is_black_code(c) } }
#[inline]
pub fn piece_of(c: u8) -> u8 { (c - 1) % 6 }
#[inline]
pub fn bit(s: u8) -> u64 { 1u64 << s }
#[inline]
pub fn on(set: u64, s: u8) -> bool { (set >> s) & 1 == 1 }
#[inline]
pub fn sq_at(f: i8, r: i8) -> Option<u8> {
    if 0 <= f && f < 8 && 0 <= r && r < 8 { Some((r * 8 + f) as u8) } else { None }
}
/// forward direction of a pawn in rank-index units: White -1 (towards the eighth rank), Black +1
#[inline]
pub fn fwd(white: bool) -> i8 { if white { -1 } else { 1 } }
#[inline]
pub fn home_rank(white: bool) -> i8 { if white { 7 } else { 0 } }

/// squares reached from `s` by sliding along `dirs`, each ray up to and including the first
/// occupied square
pub fn slide_ref(s: u8, occ: u64, dirs: &[(i8, i8); 4]) -> u64 {
    let (f, r) = ((s % 8) as i8, (s / 8) as i8);
    let mut res = 0u64;
    let mut d = 0;
    while d < 4 {
        let (df, dr) = dirs[d];
        let mut k = 1i8;
        while k < 8 {
            match sq_at(f + df * k, r + dr * k) {
                None => break,
                Some(t) => {
                    res |= bit(t);
                    if on(occ, t) { break; }
                }
            }
            k += 1;
        }
        d += 1;
    }
    res
}

pub fn leaper_ref(s: u8, deltas: &[(i8, i8); 8]) -> u64 {
    let (f, r) = ((s % 8) as i8, (s / 8) as i8);
    let mut res = 0u64;
    let mut d = 0;
    while d < 8 {
        if let Some(t) = sq_at(f + deltas[d].0, r + deltas[d].1) { res |= bit(t); }
        d += 1;
    }
    res
}

/// squares on which a pawn of the given colour standing on `s` captures
pub fn pawn_attacks_ref(white: bool, s: u8) -> u64 {
    let (f, r) = ((s % 8) as i8, (s / 8) as i8);
    let mut res = 0u64;
    if let Some(t) = sq_at(f - 1, r + fwd(white)) { res |= bit(t); }
    if let Some(t) = sq_at(f + 1, r + fwd(white)) { res |= bit(t); }
    res
}

/// squares strictly between two squares on a common line (empty if not aligned or adjacent)
pub fn between_ref(a: u8, b: u8) -> u64 {
    let (af, ar, bf, br) = ((a % 8) as i8, (a / 8) as i8, (b % 8) as i8, (b / 8) as i8);
    let (df, dr) = (bf - af, br - ar);
    let aligned = a != b && (df == 0 || dr == 0 || df == dr || df == -dr);
    let mut res = 0u64;
    if !aligned { return res; }
    let (sf, sr) = (df.signum(), dr.signum());
    let mut k = 1i8;
    while k < 8 {
        let (f, r) = (af + sf * k, ar + sr * k);
        if f == bf && r == br { break; }
        res |= bit((r * 8 + f) as u8);
        k += 1;
    }
    res
}

pub fn occ_of(cells: &[Cell; 64]) -> u64 {
    let mut o = 0u64;
    let mut r = 0;
    while r < 8 { let mut f = 0; while f < 8 { let i = r * 8 + f; if ci(cells[i]) != EMPTY { o |= 1u64 << i; } f += 1; } r += 1; }
    o
}

/// the men of colour `by_white` that attack square `t`: a man attacks `t` when it could capture
/// there by a pseudo-legal non-en-passant capture if an enemy man stood on `t` (whatever is on
/// `t` now).  Walked from the target outwards, which is the same relation: leaper offsets are
/// symmetric, a pawn on (f-+1, r-fwd) captures on (f, r), and a slider reaches `t` exactly when
/// nothing stands strictly between.
pub fn ref_attackers(cells: &[Cell; 64], t: u8, by_white: bool) -> u64 {
    let (f, r) = ((t % 8) as i8, (t / 8) as i8);
    let mut res = 0u64;
    let mut d = 0;
    while d < 8 {
        if let Some(s) = sq_at(f + KNIGHT_D[d].0, r + KNIGHT_D[d].1) {
            if ci(cells[s as usize]) == code(by_white, KNIGHT) { res |= bit(s); }
        }
        if let Some(s) = sq_at(f + KING_D[d].0, r + KING_D[d].1) {
            if ci(cells[s as usize]) == code(by_white, KING) { res |= bit(s); }
        }
        d += 1;
    }
    // a pawn of that colour one rank *behind* t (from its own point of view), on an adjacent file
    if let Some(s) = sq_at(f - 1, r - fwd(by_white)) { if ci(cells[s as usize]) == code(by_white, PAWN) { res |= bit(s); } }
    if let Some(s) = sq_at(f + 1, r - fwd(by_white)) { if ci(cells[s as usize]) == code(by_white, PAWN) { res |= bit(s); } }
    let mut d = 0;
    while d < 8 {
        let (df, dr) = KING_D[d];
        let diagonal = df != 0 && dr != 0;
        let mut k = 1i8;
        while k < 8 {
            match sq_at(f + df * k, r + dr * k) {
                None => break,
                Some(s) => {
                    let c = ci(cells[s as usize]);
                    if c != EMPTY {
                        if c == code(by_white, QUEEN) || c == code(by_white, if diagonal { BISHOP } else { ROOK }) { res |= bit(s); }
                        break;
                    }
                }
            }
            k += 1;
        }
        d += 1;
    }
    res
}

pub fn ref_attacked(cells: &[Cell; 64], t: u8, by_white: bool) -> bool { ref_attackers(cells, t, by_white) != 0 }

/// square of the (first) king of that colour, 64 if none
pub fn king_sq(cells: &[Cell; 64], white: bool) -> u8 {
    let mut res = 64u8;
    let mut r = 0u8;
    while r < 8 { let mut f = 0u8; while f < 8 { let i = r * 8 + f; if res == 64 && ci(cells[i as usize]) == code(white, KING) { res = i; } f += 1; } r += 1; }
    res
}

pub fn count_code(cells: &[Cell; 64], c: u8) -> u32 {
    let mut n = 0;
    let mut r = 0;
    while r < 8 { let mut f = 0; while f < 8 { if ci(cells[r * 8 + f]) == c { n += 1; } f += 1; } r += 1; }
    n
}
pub fn count_colour(cells: &[Cell; 64], white: bool) -> u32 {
    let mut n = 0;
    let mut r = 0;
    while r < 8 { let mut f = 0; while f < 8 { if has_colour(ci(cells[r * 8 + f]), white) { n += 1; } f += 1; } r += 1; }
    n
}

// ------------------------------------------------------------------------------------------------
// moves
// ------------------------------------------------------------------------------------------------
#[derive(Copy, Clone, PartialEq, Eq)]
pub struct RMove { pub kind: u8, pub cell: u8, pub src: u8, pub dst: u8 }

pub const K_NULL: u8 = 0;
pub const K_SIMPLE: u8 = 1;
pub const K_CASTLE_K: u8 = 2;
pub const K_CASTLE_Q: u8 = 3;
pub const K_DOUBLE: u8 = 4;
pub const K_EP: u8 = 5;
pub const K_PROMO_N: u8 = 6;
pub const K_PROMO_B: u8 = 7;
pub const K_PROMO_R: u8 = 8;
pub const K_PROMO_Q: u8 = 9;

pub fn kind_code(k: MoveKind) -> u8 {
    match k {
        MoveKind::Null => K_NULL, MoveKind::Simple => K_SIMPLE, MoveKind::CastlingKingside => K_CASTLE_K,
        MoveKind::CastlingQueenside => K_CASTLE_Q, MoveKind::PawnDouble => K_DOUBLE, MoveKind::Enpassant => K_EP,
        MoveKind::PromoteKnight => K_PROMO_N, MoveKind::PromoteBishop => K_PROMO_B, MoveKind::PromoteRook => K_PROMO_R,
        MoveKind::PromoteQueen => K_PROMO_Q,
    }
}
pub fn mk_kind(k: u8) -> MoveKind {
    match k {
        0 => MoveKind::Null, 1 => MoveKind::Simple, 2 => MoveKind::CastlingKingside, 3 => MoveKind::CastlingQueenside,
        4 => MoveKind::PawnDouble, 5 => MoveKind::Enpassant, 6 => MoveKind::PromoteKnight, 7 => MoveKind::PromoteBishop,
        8 => MoveKind::PromoteRook, _ => MoveKind::PromoteQueen,
    }
}
pub fn rmove(m: Move) -> RMove {
    RMove { kind: kind_code(m.kind()), cell: ci(m.src_cell()), src: m.src().index() as u8, dst: m.dst().index() as u8 }
}
pub fn is_promo(k: u8) -> bool { K_PROMO_N <= k && k <= K_PROMO_Q }
pub fn promo_piece(k: u8) -> u8 { match k { K_PROMO_N => KNIGHT, K_PROMO_B => BISHOP, K_PROMO_R => ROOK, _ => QUEEN } }

/// geometrically possible (kind, cell, src, dst) tuples; the null move is exactly (Null, empty, 0, 0)
pub fn ref_well_formed(m: RMove) -> bool {
    if m.kind == K_NULL { return m.cell == EMPTY && m.src == 0 && m.dst == 0; }
    if m.cell == EMPTY || m.cell > 12 || m.src == m.dst || m.src >= 64 || m.dst >= 64 { return false; }
    let white = is_white_code(m.cell);
    let p = piece_of(m.cell);
    let (sf, sr, df, dr) = ((m.src % 8) as i8, (m.src / 8) as i8, (m.dst % 8) as i8, (m.dst / 8) as i8);
    let (xf, xr) = (df - sf, dr - sr);
    let adf = if xf < 0 { -xf } else { xf };
    let adr = if xr < 0 { -xr } else { xr };
    let hr = home_rank(white);
    let fw = fwd(white);
    match m.kind {
        K_SIMPLE => match p {
            // one rank forward, same or adjacent file, neither end on a back rank
            PAWN => xr == fw && adf <= 1 && sr != 0 && sr != 7 && dr != 0 && dr != 7,
            KING => adf <= 1 && adr <= 1,
            KNIGHT => (adf == 1 && adr == 2) || (adf == 2 && adr == 1),
            BISHOP => adf == adr,
            ROOK => xf == 0 || xr == 0,
            _ => adf == adr || xf == 0 || xr == 0,
        },
        K_CASTLE_K => p == KING && sr == hr && sf == 4 && dr == hr && df == 6,
        K_CASTLE_Q => p == KING && sr == hr && sf == 4 && dr == hr && df == 2,
        K_DOUBLE => p == PAWN && xf == 0 && sr == hr + fw && dr == hr + 3 * fw,
        K_EP => p == PAWN && adf == 1 && sr == hr + 4 * fw && dr == hr + 5 * fw,
        _ => p == PAWN && adf <= 1 && sr == hr + 6 * fw && dr == hr + 7 * fw,
    }
}

pub fn ep_mark(raw: &RawBoard) -> u8 { match raw.ep_source { Some(p) => p.index() as u8, None => 64 } }
pub fn side_white(raw: &RawBoard) -> bool { raw.side == Color::White }
pub fn has_right(raw: &RawBoard, white: bool, kingside: bool) -> bool {
    raw.castling.has(if white { Color::White } else { Color::Black }, if kingside { CastlingSide::King } else { CastlingSide::Queen })
}

/// pseudo-legal ("semilegal"): legal except that the mover's king may be left attacked.
pub fn ref_pseudo(raw: &RawBoard, m: RMove) -> bool {
    if m.kind == K_NULL || !ref_well_formed(m) { return false; }
    let cells = &raw.cells;
    let white = side_white(raw);
    if ci(cells[m.src as usize]) != m.cell || !has_colour(m.cell, white) { return false; }
    let target = ci(cells[m.dst as usize]);
    if has_colour(target, white) { return false; }
    let p = piece_of(m.cell);
    let occ = occ_of(cells);
    let (sf, df) = ((m.src % 8) as i8, (m.dst % 8) as i8);
    let fw8 = fwd(white) * 8;
    match p {
        PAWN => match m.kind {
            K_DOUBLE => {
                let mid = (m.src as i8 + fw8) as u8;
                ci(cells[mid as usize]) == EMPTY && target == EMPTY
            }
            K_EP => {
                // the marked square holds the enemy pawn that has just made a double step; it
                // stands beside the capturing pawn, and the capture lands on the square behind it
                let mark = ep_mark(raw);
                mark < 64
                    && mark / 8 == m.src / 8 && mark % 8 == m.dst % 8
                    && m.dst as i8 == mark as i8 + fw8
                    && ci(cells[mark as usize]) == code(!white, PAWN)
                    && target == EMPTY
            }
            // single step (plain or promoting): straight onto an empty square, or diagonally onto an enemy man
            _ => (sf == df) == (target == EMPTY),
        },
        KING => match m.kind {
            K_CASTLE_K | K_CASTLE_Q => {
                let kingside = m.kind == K_CASTLE_K;
                let hr = home_rank(white) as u8 * 8;
                let between_free = if kingside {
                    !on(occ, hr + 5) && !on(occ, hr + 6)
                } else {
                    !on(occ, hr + 1) && !on(occ, hr + 2) && !on(occ, hr + 3)
                };
                let crossed = if kingside { hr + 5 } else { hr + 3 };
                has_right(raw, white, kingside) && between_free
                    && !ref_attacked(cells, m.src, !white) && !ref_attacked(cells, crossed, !white)
            }
            _ => true,
        },
        KNIGHT => true,
        BISHOP => on(slide_ref(m.src, occ, &BISHOP_D), m.dst),
        ROOK => on(slide_ref(m.src, occ, &ROOK_D), m.dst),
        _ => on(slide_ref(m.src, occ, &BISHOP_D) | slide_ref(m.src, occ, &ROOK_D), m.dst),
    }
}

fn sat_inc(x: u16) -> u16 { if x == u16::MAX { x } else { x + 1 } }

fn home_corner_right(s: u8) -> Option<(bool, bool)> {
    // (white, kingside) whose rook home square is s
    match s { 56 => Some((true, false)), 63 => Some((true, true)), 0 => Some((false, false)), 7 => Some((false, true)), _ => None }
}

/// the position after a pseudo-legal (or null) move, all six fields
pub fn ref_apply(raw: &RawBoard, m: RMove) -> RawBoard {
    let mut n = *raw;
    let white = side_white(raw);
    let me = if white { Color::White } else { Color::Black };
    let target = ci(raw.cells[m.dst as usize]);
    let mut capture = false;
    let mut pawn_move = false;
    n.ep_source = None;
    if m.kind != K_NULL {
        let p = piece_of(m.cell);
        pawn_move = p == PAWN;
        capture = target != EMPTY;
        n.cells[m.src as usize] = Cell::EMPTY;
        let placed = if is_promo(m.kind) { code(white, promo_piece(m.kind)) } else { m.cell };
        n.cells[m.dst as usize] = unsafe { Cell::from_index_unchecked(placed as usize) };
        match m.kind {
            K_EP => {
                let victim = (m.dst as i8 - fwd(white) * 8) as u8;
                n.cells[victim as usize] = Cell::EMPTY;
                capture = true;
            }
            K_DOUBLE => { n.ep_source = Some(unsafe { Coord::from_index_unchecked(m.dst as usize) }); }
            K_CASTLE_K | K_CASTLE_Q => {
                let hr = home_rank(white) as u8 * 8;
                let (rf, rt) = if m.kind == K_CASTLE_K { (hr + 7, hr + 5) } else { (hr, hr + 3) };
                n.cells[rf as usize] = Cell::EMPTY;
                n.cells[rt as usize] = unsafe { Cell::from_index_unchecked(code(white, ROOK) as usize) };
            }
            _ => {}
        }
        // rights: lost by a king that moved, a rook that left its home square, a rook captured at home
        if p == KING { n.castling.unset(me, CastlingSide::King); n.castling.unset(me, CastlingSide::Queen); }
        if let Some((w, k)) = home_corner_right(m.src) {
            n.castling.unset(if w { Color::White } else { Color::Black }, if k { CastlingSide::King } else { CastlingSide::Queen });
        }
        if let Some((w, k)) = home_corner_right(m.dst) {
            n.castling.unset(if w { Color::White } else { Color::Black }, if k { CastlingSide::King } else { CastlingSide::Queen });
        }
    }
    n.side = me.inv();
    n.move_counter = if capture || pawn_move { 0 } else { sat_inc(raw.move_counter) };
    n.move_number = if white { raw.move_number } else { sat_inc(raw.move_number) };
    n
}

pub fn ref_legal(raw: &RawBoard, m: RMove) -> bool {
    if !ref_pseudo(raw, m) { return false; }
    let after = ref_apply(raw, m);
    let white = side_white(raw);
    let k = king_sq(&after.cells, white);
    k < 64 && !ref_attacked(&after.cells, k, !white)
}

// ------------------------------------------------------------------------------------------------
// validity (C11)
// ------------------------------------------------------------------------------------------------
pub fn ref_ep_rank_ok(raw: &RawBoard) -> bool {
    let mark = ep_mark(raw);
    // the marked pawn stands on the rank it reached by its double step: 4th rank for a white pawn
    // (Black to move), 5th rank for a black pawn (White to move)
    mark == 64 || (mark / 8) as i8 == home_rank(side_white(raw)) + 4 * fwd(side_white(raw))
}

pub fn ref_valid(raw: &RawBoard) -> bool {
    let cells = &raw.cells;
    if !ref_ep_rank_ok(raw) { return false; }
    if count_colour(cells, true) > 16 || count_colour(cells, false) > 16 { return false; }
    if count_code(cells, code(true, KING)) != 1 || count_code(cells, code(false, KING)) != 1 { return false; }
    let mut f = 0;
    while f < 8 {
        let a = ci(cells[f]); let b = ci(cells[56 + f]);
        if a == code(true, PAWN) || a == code(false, PAWN) || b == code(true, PAWN) || b == code(false, PAWN) { return false; }
        f += 1;
    }
    let white = side_white(raw);
    // the side that has just moved is not in check
    !ref_attacked(cells, king_sq(cells, !white), white)
}

/// what validation may change: rights without king/rook at home, a mark without its pawn or with
/// an occupied square behind it
pub fn ref_normalise(raw: &RawBoard) -> RawBoard {
    let mut n = *raw;
    let white = side_white(raw);
    let mark = ep_mark(raw);
    if mark < 64 && ref_ep_rank_ok(raw) {
        let behind = (mark as i8 + fwd(white) * 8) as u8;
        if ci(raw.cells[mark as usize]) != code(!white, PAWN) || ci(raw.cells[behind as usize]) != EMPTY { n.ep_source = None; }
    }
    let mut w = 0;
    while w < 2 {
        let is_w = w == 0;
        let col = if is_w { Color::White } else { Color::Black };
        let hr = home_rank(is_w) as usize * 8;
        let king_home = ci(raw.cells[hr + 4]) == code(is_w, KING);
        if !king_home || ci(raw.cells[hr]) != code(is_w, ROOK) { n.castling.unset(col, CastlingSide::Queen); }
        if !king_home || ci(raw.cells[hr + 7]) != code(is_w, ROOK) { n.castling.unset(col, CastlingSide::King); }
        w += 1;
    }
    n
}

// ------------------------------------------------------------------------------------------------
// outcome (C07)
// ------------------------------------------------------------------------------------------------
/// besides the two kings the board holds nothing, or a single knight, or only bishops all on
/// squares of one colour
pub fn ref_insufficient(cells: &[Cell; 64]) -> bool {
    let mut others = 0u32; let mut knights = 0u32; let mut bishops = 0u32;
    let mut on_light = false; let mut on_dark = false;
    let mut r = 0;
    while r < 8 { let mut f = 0; while f < 8 {
        let c = ci(cells[r * 8 + f]);
        if c != EMPTY && piece_of(c) != KING {
            others += 1;
            if piece_of(c) == KNIGHT { knights += 1; }
            if piece_of(c) == BISHOP { bishops += 1; if (r + f) % 2 == 0 { on_light = true; } else { on_dark = true; } }
        }
        f += 1; } r += 1; }
    others == 0 || (others == 1 && knights == 1) || (others == bishops && !(on_light && on_dark))
}

pub fn ref_draw_simple(raw: &RawBoard) -> Option<DrawReason> {
    if ref_insufficient(&raw.cells) { return Some(DrawReason::InsufficientMaterial); }
    if raw.move_counter >= 150 { return Some(DrawReason::Moves75); }
    if raw.move_counter >= 100 { return Some(DrawReason::Moves50); }
    None
}

/// `has_move`: the side to move has at least one legal move; `in_check`: its king is attacked
pub fn ref_outcome(raw: &RawBoard, has_move: bool, in_check: bool) -> Option<Outcome> {
    if !has_move {
        return Some(if in_check { Outcome::Win { side: raw.side.inv(), reason: WinReason::Checkmate } } else { Outcome::Draw(DrawReason::Stalemate) });
    }
    ref_draw_simple(raw).map(Outcome::Draw)
}
