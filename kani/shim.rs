// Symbolic-input helpers shared by every harness (DESIGN.md 2.5).
//
// Under `cargo kani` each helper is a `kani::any()` of a primitive type, so that the concrete
// playback of a failing harness is a flat list of little-endian byte vectors in call order.
// Under `--cfg owlchess_verif_replay` (ordinary rustc, real functions, no stubs) the same
// helpers read that list back from the file named by $VERIF_REPLAY_VALS, so the *same harness
// body* runs natively on the verifier's counterexample.

#[cfg(kani)]
mod imp {
    pub fn any_u8() -> u8 { kani::any() }
    pub fn any_u16() -> u16 { kani::any() }
    pub fn any_u32() -> u32 { kani::any() }
    pub fn any_u64() -> u64 { kani::any() }
    pub fn any_bool() -> bool { kani::any() }
    pub fn assume(c: bool) { kani::assume(c) }
    pub const REPLAY: bool = false;
    pub fn note(_s: &str) {}
}

#[cfg(not(kani))]
mod imp {
    use std::cell::RefCell;
    thread_local! {
        static VALS: RefCell<Option<(Vec<Vec<u8>>, usize)>> = RefCell::new(None);
    }
    fn load() -> Vec<Vec<u8>> {
        let p = std::env::var("VERIF_REPLAY_VALS").expect("VERIF_REPLAY_VALS not set");
        let s = std::fs::read_to_string(p).expect("cannot read replay values");
        // tiny parser for [[1,2],[3]] (no serde in this crate)
        let mut out = Vec::new();
        let mut cur: Option<Vec<u8>> = None;
        let mut num: Option<u32> = None;
        let mut depth = 0;
        for ch in s.chars() {
            match ch {
                '[' => { depth += 1; if depth == 2 { cur = Some(Vec::new()); } }
                ']' => {
                    if depth == 2 {
                        let mut v = cur.take().unwrap();
                        if let Some(n) = num.take() { v.push(n as u8); }
                        out.push(v);
                    }
                    depth -= 1;
                }
                ',' => { if depth == 2 { if let Some(n) = num.take() { cur.as_mut().unwrap().push(n as u8); } } }
                d if d.is_ascii_digit() => { num = Some(num.unwrap_or(0) * 10 + d.to_digit(10).unwrap()); }
                _ => {}
            }
        }
        out
    }
    fn next(n: usize) -> Vec<u8> {
        VALS.with(|v| {
            let mut v = v.borrow_mut();
            if v.is_none() { *v = Some((load(), 0)); }
            let (vals, pos) = v.as_mut().unwrap();
            if *pos >= vals.len() || vals[*pos].len() != n {
                eprintln!("REPLAY-DIVERGED: value #{} has wrong size or is missing (wanted {} bytes)", *pos, n);
                panic!("REPLAY-DIVERGED");
            }
            *pos += 1;
            vals[*pos - 1].clone()
        })
    }
    pub fn any_u8() -> u8 { next(1)[0] }
    pub fn any_u16() -> u16 { let b = next(2); u16::from_le_bytes([b[0], b[1]]) }
    pub fn any_u32() -> u32 { let b = next(4); u32::from_le_bytes([b[0], b[1], b[2], b[3]]) }
    pub fn any_u64() -> u64 { let b = next(8); let mut a = [0u8; 8]; a.copy_from_slice(&b); u64::from_le_bytes(a) }
    pub fn any_bool() -> bool { next(1)[0] != 0 }
    pub fn assume(c: bool) {
        if !c {
            eprintln!("REPLAY-DIVERGED: a precondition of the harness does not hold on the recorded values");
            panic!("REPLAY-DIVERGED");
        }
    }
    pub const REPLAY: bool = true;
    pub fn note(s: &str) { eprintln!("REPLAY-INPUT: {}", s); }
}

pub use imp::*;
