// Harness-side UTF-8 well-formedness (RFC 3629, Table 3-7 of the Unicode standard), written as a
// plain byte automaton.  std's validator is word-at-a-time and dominates CBMC's cost on symbolic
// strings; the harnesses therefore decide validity with this predicate and build the &str with
// from_utf8_unchecked.  `c12_utf8_predicate_agrees_with_std` proves the two agree on every byte
// string of <= 5 bytes (all encodings are <= 4 bytes long and validity is a regular property of
// adjacent sequences).
pub fn valid_utf8(b: &[u8], len: usize) -> bool {
    let mut i = 0usize;
    while i < len {
        let c = b[i];
        let need = if c < 0x80 { 0 } else if 0xC2 <= c && c <= 0xDF { 1 } else if 0xE0 <= c && c <= 0xEF { 2 } else if 0xF0 <= c && c <= 0xF4 { 3 } else { return false; };
        if i + need >= len && need > 0 { return false; }
        if need >= 1 {
            let c1 = b[i + 1];
            let (lo, hi) = match c { 0xE0 => (0xA0, 0xBF), 0xED => (0x80, 0x9F), 0xF0 => (0x90, 0xBF), 0xF4 => (0x80, 0x8F), _ => (0x80, 0xBF) };
            if c1 < lo || c1 > hi { return false; }
        }
        if need >= 2 { let c2 = b[i + 2]; if c2 < 0x80 || c2 > 0xBF { return false; } }
        if need >= 3 { let c3 = b[i + 3]; if c3 < 0x80 || c3 > 0xBF { return false; } }
        i += need + 1;
    }
    true
}
pub fn as_str(b: &[u8], len: usize) -> &str { unsafe { core::str::from_utf8_unchecked(&b[..len]) } }
