// C05: facts about the key tables of the build under test (loop-free, symbolic indices), and
// in-bounds table access for every valid index (C19).
include!("hmacros.rs");
use super::*;
use crate::verif_shim as vk;

fn any_sq() -> Coord { let i = vk::any_u8(); vk::assume(i < 64); unsafe { Coord::from_index_unchecked(i as usize) } }
fn any_cell() -> Cell { let i = vk::any_u8(); vk::assume(i < 13); unsafe { Cell::from_index_unchecked(i as usize) } }

harness! {
    fn c05_keys_single_feature_differences() {
        let sq = any_sq(); let c1 = any_cell(); let c2 = any_cell();
        // one man on one square (including man vs empty: the empty key is zero)
        assert!(pieces(Cell::EMPTY, sq) == 0);
        if c1 != c2 { assert!(pieces(c1, sq) != pieces(c2, sq)); }
        // side to move
        assert!(MOVE_SIDE != 0);
        // one castling right
        let r = vk::any_u8(); vk::assume(r < 16);
        let j = vk::any_u8(); vk::assume(j < 4);
        assert!(castling(CastlingRights::from_index(r as usize)) != castling(CastlingRights::from_index((r ^ (1 << j)) as usize)));
        // en-passant mark: present vs absent, and two different marked squares
        let p = any_sq(); let q = any_sq();
        assert!(enpassant(p) != 0);
        if p != q { assert!(enpassant(p) != enpassant(q)); }
    }
}
harness! {
    fn c05_castling_delta_keys() {
        // the precombined castling deltas are the XOR of the four piece keys they replace
        let white = vk::any_bool();
        let c = if white { Color::White } else { Color::Black };
        let hr: usize = if white { 56 } else { 0 };
        let k = Cell::from_parts(c, crate::types::Piece::King);
        let r = Cell::from_parts(c, crate::types::Piece::Rook);
        let sq = |i: usize| unsafe { Coord::from_index_unchecked(hr + i) };
        assert!(castling_delta(c, CastlingSide::King) == pieces(k, sq(4)) ^ pieces(k, sq(6)) ^ pieces(r, sq(7)) ^ pieces(r, sq(5)));
        assert!(castling_delta(c, CastlingSide::Queen) == pieces(k, sq(4)) ^ pieces(k, sq(2)) ^ pieces(r, sq(0)) ^ pieces(r, sq(3)));
    }
}
