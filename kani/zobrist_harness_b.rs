// extension of zobrist_harness.rs: the key tables as plain arrays, for reference computations
// that should not pay for pointer arithmetic into the statics
include!("hmacros.rs");
use super::*;
use crate::verif_shim as vk;

pub fn piece_key_table() -> [[u64; 64]; 13] { PIECES }
pub fn enpassant_key_table() -> [u64; 64] { ENPASSANT }
pub fn castling_key_table() -> [u64; 16] { CASTLING }

harness! {
    fn c05_key_functions_read_the_tables() {
        let c = vk::any_u8(); vk::assume(c < 13);
        let s = vk::any_u8(); vk::assume(s < 64);
        let r = vk::any_u8(); vk::assume(r < 16);
        let cell = unsafe { Cell::from_index_unchecked(c as usize) };
        let sq = unsafe { Coord::from_index_unchecked(s as usize) };
        assert!(pieces(cell, sq) == piece_key_table()[c as usize][s as usize]);
        assert!(enpassant(sq) == enpassant_key_table()[s as usize]);
        assert!(castling(CastlingRights::from_index(r as usize)) == castling_key_table()[r as usize]);
    }
}
