#!/usr/bin/env python3
"""per property: the quick obligations TAGGED with it (no import closure), their last measured times"""
import json,glob,os,sys
sys.path.insert(0,'/verif/lib')
import obligations as O
best={}
for f in sorted(glob.glob('/verif/.cache/ob/*.json'),key=os.path.getmtime):
    d=json.load(open(f))
    if d.get('status')=='discharged': best[d['id']]=d
detail = sys.argv[1] if len(sys.argv)>1 else None
for n in range(1,21):
    pid='C%02d'%n
    obs=O.for_property(pid,'quick')
    tot=sum(best.get(o['id'],{}).get('seconds',0) for o in obs)
    mx=max([best.get(o['id'],{}).get('seconds',0) for o in obs] or [0])
    miss=[o['id'] for o in obs if o['id'] not in best]
    print(pid,'n=%d'%len(obs),'sum=%d'%tot,'max=%d'%mx,'unmeasured=%d'%len(miss))
    if detail==pid:
        for o in sorted(obs,key=lambda o:-best.get(o['id'],{}).get('seconds',0)): print('   %7.1f %s'%(best.get(o['id'],{}).get('seconds',-1),o['id']))
