"""Layer V: verbatim extraction of real functions into a Verus file (DESIGN.md 2.3).

A spec file (/verif/verus/<name>.vspec) is a Verus source text with directive blocks:

    //@item <relpath> <kind> <anchor>       kind: fn | struct | enum | impl-fn
    //@in <regex>                           (optional) only search after the first match of this regex
    //@clauses                              text spliced between the signature and the body
    //    requires ..., ensures ...,
    //@loop <n>                             text spliced between the n-th loop header and its body
    //    invariant ..., decreases ...,
    //@rewrite <regex> ==> <replacement>    extra mechanical rewrite of this item (counted, reported)
    //@hint-after <regex>                   proof-only text (ghost lets / assert) inserted after the first
    //    assert(...);                      line of the body matching the regex; changes no executable code
    //@end

Everything outside directive blocks is copied as is (imported contracts, spec functions, lemmas).
The item is located in the scratch copy of the working tree by its anchor (`fn name`, `struct
Name`, `enum Name`) with brace matching, taken *verbatim*, and only the rewrites R1-R7 below plus
the item's own //@rewrite rules are applied; each application is counted and reported in the
evidence.  A missing anchor raises AnchorLost (the obligation is then undecided, never an alarm).
"""
import os
import re


class AnchorLost(Exception):
    pass


def _match_brace(text, i):
    """index just after the brace block starting at text[i] == '{' (skips strings/chars/comments)"""
    assert text[i] == "{"
    depth = 0
    n = len(text)
    while i < n:
        c = text[i]
        if text.startswith("//", i):
            i = text.find("\n", i)
            if i < 0:
                return n
            continue
        if text.startswith("/*", i):
            i = text.find("*/", i) + 2
            continue
        if c == '"':
            i += 1
            while i < n and text[i] != '"':
                i += 2 if text[i] == "\\" else 1
            i += 1
            continue
        if c == "'":
            # char literal or lifetime
            m = re.match(r"'(\\.|[^\\'])'", text[i:])
            if m:
                i += m.end()
                continue
            i += 1
            continue
        if c == "{":
            depth += 1
        elif c == "}":
            depth -= 1
            if depth == 0:
                return i + 1
        i += 1
    raise AnchorLost("unbalanced braces")


def _strip_attrs_and_docs(text):
    out = []
    n = 0
    for line in text.split("\n"):
        s = line.strip()
        if s.startswith("///") or s.startswith("//!"):
            n += 1
            continue
        if re.match(r"#\[(inline|allow|must_use|non_exhaustive|error|display|default|rustfmt)[^\]]*\]$", s) or s == "#[inline]":
            n += 1
            continue
        m = re.match(r"(\s*)#\[derive\((.*)\)\]\s*$", line)
        if m:
            keep = [d.strip() for d in m.group(2).split(",") if d.strip() in ("Copy", "Clone", "PartialEq", "Eq")]
            if len(keep) != len([d for d in m.group(2).split(",") if d.strip()]):
                n += 1
            if keep:
                out.append("%s#[derive(%s)]" % (m.group(1), ", ".join(keep)))
            continue
        out.append(line)
    return "\n".join(out), n


def find_item(src, kind, anchor, after=None):
    start_search = 0
    if after:
        m = re.search(after, src)
        if not m:
            raise AnchorLost("context %r not found" % after)
        start_search = m.start()
    if kind in ("fn", "impl-fn"):
        pat = r"(?m)^[ \t]*(?:pub(?:\([a-z]+\))? )?(?:const )?(?:unsafe )?fn %s\b" % re.escape(anchor)
    elif kind == "struct":
        pat = r"(?m)^[ \t]*(?:pub(?:\([a-z]+\))? )?struct %s\b" % re.escape(anchor)
    elif kind == "enum":
        pat = r"(?m)^[ \t]*(?:pub(?:\([a-z]+\))? )?enum %s\b" % re.escape(anchor)
    else:
        raise ValueError(kind)
    m = re.compile(pat).search(src, start_search)
    if not m:
        raise AnchorLost("%s %s" % (kind, anchor))
    i = m.start()
    # include the contiguous attribute / doc-comment lines just above the item
    while i > 0:
        prev_end = i - 1
        prev_start = src.rfind("\n", 0, prev_end) + 1
        pl = src[prev_start:prev_end].strip()
        if pl.startswith("#[") or pl.startswith("///"):
            i = prev_start
        else:
            break
    j = src.find("{", m.end())
    k = src.find(";", m.end())
    if kind == "struct" and 0 <= k < j:
        return src[i:k + 1], i       # tuple / unit struct
    if j < 0:
        raise AnchorLost("%s %s has no body" % (kind, anchor))
    end = _match_brace(src, j)
    return src[i:end], i


LOOP_RE = re.compile(r"(?m)^[ \t]*(?:'[a-z_]+: )?(while|for|loop)\b")


def splice(item, kind, clauses, loops, rewrites, rules, hints=()):
    text = item
    # R3 docs / attributes
    text, n = _strip_attrs_and_docs(text)
    if n:
        rules["R3 doc comments, #[inline]/#[allow]/#[display] attributes and non-structural derives (Debug, Hash, Display, Default) removed"] = rules.get("R3 doc comments, #[inline]/#[allow]/#[display] attributes and non-structural derives (Debug, Hash, Display, Default) removed", 0) + n
    # R1 assert! -> obligation
    text, n = re.subn(r"\bassert!\(", "vpanic_unless(", text)
    if n:
        rules["R1 assert!(e) -> vpanic_unless(e) [fn with `requires e`: not panicking becomes an obligation]"] = rules.get("R1 assert!(e) -> vpanic_unless(e) [fn with `requires e`: not panicking becomes an obligation]", 0) + n
    # R2 unsafe
    n_total = 0
    text, n = re.subn(r"\bunsafe fn\b", "fn", text)
    n_total += n
    # `unsafe { e }` -> `{ e }`
    text, n = re.subn(r"\bunsafe \{", "{", text)
    n_total += n
    if n_total:
        rules["R2 `unsafe {..}` -> `{..}`, `unsafe fn` -> `fn` [unsafe callees are imported with their safety condition as requires]"] = rules.get("R2 `unsafe {..}` -> `{..}`, `unsafe fn` -> `fn` [unsafe callees are imported with their safety condition as requires]", 0) + n_total
    # R7 visibility: private struct fields become `pub` (spec clauses of public functions must be
    # able to mention them); nothing else about visibility is touched
    if kind == "struct":
        text, n = re.subn(r"(?m)^([ \t]+)(?:pub(?:\([a-z]+\))? )?([a-z_][a-z_0-9]*: )", r"\1pub \2", text)
        text, n2 = re.subn(r"(?m)^([ \t]*)(?:pub(?:\([a-z]+\))? )?struct\b", r"\1pub struct", text)
        if n + n2:
            rules["R7 struct and its fields made `pub` (visibility only)"] = rules.get("R7 struct and its fields made `pub` (visibility only)", 0) + n + n2
    if kind == "enum":
        text, n2 = re.subn(r"(?m)^([ \t]*)(?:pub(?:\([a-z]+\))? )?enum\b", r"\1pub enum", text)
    text, n = re.subn(r"\bconst fn\b", "fn", text)
    if n:
        rules["R7b `const fn` -> `fn`"] = rules.get("R7b `const fn` -> `fn`", 0) + n
    for pat, rep in rewrites:
        text, n = re.subn(pat, rep, text)
        if n == 0:
            raise AnchorLost("rewrite %r matched nothing" % pat)
        key = "R-item `%s` -> `%s`" % (pat, rep)
        rules[key] = rules.get(key, 0) + n
    for pat, hint in hints:
        ls = text.split("\n")
        for idx, l in enumerate(ls):
            if re.search(pat, l):
                ls.insert(idx + 1, "        proof {\n" + hint + "\n        }")
                break
        else:
            raise AnchorLost("hint anchor %r not found" % pat)
        text = "\n".join(ls)
        rules["R9 proof-only hint block inserted after an anchored statement"] = rules.get("R9 proof-only hint block inserted after an anchored statement", 0) + 1
    if kind in ("fn", "impl-fn"):
        j = text.find("{")
        # the body brace is the first '{' that is not inside the signature's generics/where: good
        # enough for this code base (no braces in signatures)
        if clauses.strip():
            text = text[:j].rstrip() + "\n" + clauses.rstrip() + "\n" + text[j:]
            rules["R6 clauses spliced (requires/ensures/invariant/decreases)"] = rules.get("R6 clauses spliced (requires/ensures/invariant/decreases)", 0) + 1
        if loops:
            # locate loops in the body in textual order
            body_start = text.find("{", text.find("fn "))
            pos = []
            for m in LOOP_RE.finditer(text, body_start):
                pos.append(m.start())
            for n_ord in sorted(loops, reverse=True):
                if n_ord > len(pos):
                    # the function has fewer loops than the specification names (e.g. a `while`
                    # turned into an `if`): there is nothing to attach this invariant to; the
                    # remaining clauses decide.  A loop that is still there in another shape is
                    # left without invariant, which Verus rejects (reported undecided, not failed).
                    k = "R6b loop clauses dropped: loop ordinal not present in the function body"
                    rules[k] = rules.get(k, 0) + 1
                    continue
                p = pos[n_ord - 1]
                b = text.find("{", p)
                text = text[:b].rstrip() + "\n" + loops[n_ord].rstrip() + "\n" + text[b:]
                rules["R6 clauses spliced (requires/ensures/invariant/decreases)"] = rules.get("R6 clauses spliced (requires/ensures/invariant/decreases)", 0) + 1
    return text


def assemble(repo_dir, spec_name, probe=False):
    """probe=True: vacuity probe - `assert(false)` is inserted at the start of every extracted function
    that has a `requires` clause; Verus must then report one failed assertion per probe (a probe that
    verifies means the precondition is contradictory)."""
    here = os.path.join(os.path.dirname(os.path.dirname(os.path.abspath(__file__))), "verus")
    with open(os.path.join(here, spec_name)) as fh:
        spec = fh.read()
    # textual includes of shared preludes
    def inc(m):
        with open(os.path.join(here, m.group(1))) as fh2:
            return fh2.read()
    spec = re.sub(r"(?m)^//@include (\S+)\s*$", inc, spec)
    rules = {}
    out = []
    lines = spec.split("\n")
    i = 0
    srcs = {}
    extracted = []
    while i < len(lines):
        ln = lines[i]
        if ln.strip().startswith("//@item "):
            _, rel, kind, anchor = ln.strip().split(None, 3)
            after = None
            clauses = []
            loops = {}
            rewrites = []
            hints = []
            cur = None
            i += 1
            while i < len(lines) and lines[i].strip() != "//@end":
                s = lines[i].strip()
                if s.startswith("//@in "):
                    after = s[6:].strip()
                elif s == "//@clauses":
                    cur = clauses
                elif s.startswith("//@loop "):
                    n_ord = int(s.split()[1])
                    loops[n_ord] = []
                    cur = loops[n_ord]
                elif s.startswith("//@hint-after "):
                    hints.append([s[len("//@hint-after "):].strip(), []])
                    cur = hints[-1][1]
                elif s.startswith("//@rewrite "):
                    pat, rep = s[len("//@rewrite "):].split(" ==> ")
                    rewrites.append((pat, rep))
                elif cur is not None:
                    cur.append(lines[i])
                i += 1
            if i >= len(lines):
                raise ValueError("unterminated //@item block for %s" % anchor)
            if rel not in srcs:
                p = os.path.join(repo_dir, rel)
                if not os.path.exists(p):
                    raise AnchorLost("file %s" % rel)
                with open(p) as fh:
                    srcs[rel] = fh.read()
            item, _ = find_item(srcs[rel], kind, anchor, after)
            text = splice(item, kind, "\n".join(clauses), {k: "\n".join(v) for k, v in loops.items()}, rewrites, rules,
                          [(h[0], "\n".join(h[1])) for h in hints])
            if probe and kind in ("fn", "impl-fn") and "requires" in "\n".join(clauses):
                j = text.find("{", text.find("requires"))
                # the body brace is the first '{' at line start after the clauses
                m2 = re.search(r"(?m)^\s*\{\s*$|\)\s*\{\s*$|,\s*\n\{", text[text.find("requires"):])
                k2 = text.find("\n{", text.find("requires"))
                if k2 >= 0:
                    text = text[:k2 + 2] + "\n        proof { assert(false); } // vacuity-probe\n" + text[k2 + 2:]
                    rules["_probes"] = rules.get("_probes", 0) + 1
            out.append("// ---- extracted verbatim from %s: %s %s ----" % (rel, kind, anchor))
            out.append(text)
            extracted.append("%s::%s" % (rel, anchor))
        else:
            out.append(ln)
        i += 1
    rules["_extracted_items"] = extracted
    return "\n".join(out), rules
