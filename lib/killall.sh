#!/bin/bash
# developer helper: stop a running lib/runall.sh and its verifier processes
[ -f /tmp/runall.pid ] && kill $(cat /tmp/runall.pid) 2>/dev/null
[ -f /tmp/check.pid ] && kill $(cat /tmp/check.pid) 2>/dev/null
sleep 0.5
pkill -x cbmc; pkill -x kissat; pkill -x cargo-kani; pkill -x kani-driver; pkill -x verus
rm -f /tmp/runall.pid /tmp/check.pid
