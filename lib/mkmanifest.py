#!/usr/bin/env python3
"""writes /verif/MANIFEST.json from the registry (claimed properties = those with obligations)"""
import json, os, sys
sys.path.insert(0, os.path.dirname(os.path.abspath(__file__)))
import obligations as OB
V = os.path.dirname(os.path.dirname(os.path.abspath(__file__)))
props = [json.loads(l) for l in open(os.path.join(V, "properties.jsonl"))]
TEXT = {
 "C01": "the legality decision without prefilter (every kind) and with the pin / check prefilter (quick: en passant, king moves, one pawn kind; every kind: thorough), every private sub-generator (witness sink; knight / sliders <= 3 men in quick, complete in thorough), the generator dispatchers (Verus), the public wrappers incl. the side dispatch (marker stubs, all boards) and the validate glue are proved equal to the reference rules on all boards satisfying the invariant",
 "C02": "Make for Move proved: Ok iff legal, result == ref_apply, Err leaves everything unchanged, no panic; validity preserved (spec lemma); UCI/SAN values resolve only to such moves; chains by Verus",
 "C03": "make_move_unchecked == ref_apply on all six fields for every kind and colour, any counter values, derived sets well-formed pointwise",
 "C04": "unmake restores every field, hash and all 16 sets for every pseudo-legal or null move; arbitrary depth by Verus lemmas over the one-step contract; chain.pop / walker call unmake only with the recorded entry",
 "C05": "per kind and colour: make_move changes the stored hash by exactly the keys of the touched squares and of the changed side / rights / mark (Kani); XOR-fold lemma over an uninterpreted key function turns that into stored == from-scratch after every step (Verus); zobrist_hash == the fold over the key tables and ignores counters; key-table facts; base case from try_from; history lemma",
 "C06": "is_well_formed == geometry on all tuples, do_is_move_semilegal == reference pseudo-legality per kind and colour, generators as C01, partition lemma",
 "C07": "insufficient material, calc_outcome precedence, and has_legal_moves decomposed into dispatcher (Verus), early-exit of each sub-generator, legality filter, castling lemma",
 "C08": "the five trailing FEN fields round-trip over their whole value domain (exhaustive native evaluation of the real functions, ~38 M records) against an independent writer; the board field: all 13^8 contents of three constant ranks in quick (Kani, bounded), symbolic rank and all 13^64 boards in thorough; parse-format-parse on finite text grammars (quick) and on bounded symbolic strings (thorough)",
 "C09": "candidate generators exact, minimal disambiguation over every admissible candidate list (from_move), check marks (Verus), into_move soundness and ambiguity for the pawn and castling forms, canonical text of every value; piece-move resolution against arbitrary candidate lists exceeds CBMC's memory here (thorough, undecided) and is covered in quick by a bounded native round trip on 14 positions",
 "C10": "UCI value <-> move round trip and kind inference on all boards, reader accepts iff a pseudo-legal move with those squares exists, text complete for the property's 20 481 strings",
 "C11": "try_from Ok iff reference validity on all 13^64 x ... raw boards, reported error holds, result normalised / well-formed / hashed, idempotence lemma",
 "C12": "BOUNDED: each parser on all UTF-8 strings up to a stated length (Kani) or on a stated finite text grammar (native evaluation): no panic, accepted values format back; 'any length' is not reached",
 "C13": "all chain functions extracted verbatim and verified by Verus for chains of any length against imported step contracts (C03 step obligations run with it); chain equality: bounded native family in quick, symbolic Kani form (lists <= 3) in thorough",
 "C14": "calc_outcome / set_auto_outcome / Outcome::passes verbatim against the precedence relation of the statement (Verus); board-level outcome by C07",
 "C15": "leapers, pawns, bishop tables (all squares x 2^64), between tables (all pairs) proved; rook: lemma + exhaustive native evaluation of all mask subsets + bounds in quick, 64 direct proofs in thorough",
 "C16": "attackers / is_attacked / is_check / checkers == reference walk on all well-formed boards, both colours",
 "C17": "Walker verbatim by Verus for any length and interleaving; the printed list of a chain without moves complete (Kani); bounded stand-ins by exhaustive native evaluation on six fixed games (all operation sequences <= 7, all list policies); Kani forms of those in thorough",
 "C18": "quick: attack and outcome rules commute with both mirrors (spec lemmas) and the implementation equals the reference in the white and the black instance of the colour-dependent obligations (pawn / king / castling generators, validator, step, attack queries, constants); thorough adds the validity and move-set mirror lemmas (11-55 min each)",
 "C19": "every unsafe site mapped to obligations that execute it under Kani's pointer/bounds/unreachable checks or prove the callee's precondition; the 256-move capacity (A-CAP) is an explicit assumption, not decided",
 "C20": "index/char/text conversions over full domains, bitboard operations against a pointwise set model for all 2^64 sets, named constants against geometry",
}
claimed = sorted({p for o in OB.OBS for p in o["props"]})
checks = []
for pr in props:
    pid = pr["id"]
    if pid not in claimed:
        continue
    only_bounded = all(o["backend"] == "kani-bounded" for o in OB.OBS if pid in o["props"] and o["props"][0] == pid) and pid == "C12"
    checks.append({
        "property_id": pid,
        "quick_cmd": "./check %s --tier quick" % pid,
        "thorough_cmd": "./check %s --tier thorough" % pid,
        "evidence_file": "/verif/evidence/%s.json" % pid,
        "replay_cmd_template": "./check replay {path}",
        "engine": "ledger",
        "level_claimed": {"category": "model_checking" if pid in ("C12", "C08") else "proof", "text": TEXT[pid], "design_ref": "DESIGN.md sections A, B and 4 (%s); OBLIGATIONS.md" % pid},
        "level_note": "trusted: Kani 0.68 / CBMC 6.11 / kissat, Verus 0.2026.09.13 / Z3, rustc, the reference semantics kani/refspec.rs; bounded obligations and every assumption (A-CAP, A-ZOBRIST, A-HASHMAP, A-ARRAYVEC, A-ROOK-MASK in quick) are listed in the evidence file and are not counted as discharged",
        "technique": "contract-based deductive verification of the real code: harness-stated function contracts discharged by Kani/CBMC on a scratch copy of the working tree, Verus on functions extracted verbatim on every run, obligation ledger linking imported contracts",
    })
na = [{"property_id": p["id"], "reason": "no obligation registered"} for p in props if p["id"] not in claimed]
m = {"version": 1,
     "setup_cmd": "python3 -c \"import sys; sys.path.insert(0, '/verif/lib'); import obligations\"",
     "hooks": {"guard": "kani (set by cargo-kani) and owlchess_verif_replay (native replay / exhaustive evaluation); both exist only in the scratch copies the checks make - /repo carries no hook",
               "enable": "lib/vlib.py Build.inject appends '#[cfg(any(kani, owlchess_verif_replay))] #[path = ...] mod verif_kani;' to a scratch copy of the working tree; nothing in /repo is edited",
               "baseline_off_cmd": "cd /repo && cargo test --workspace --no-fail-fast --offline", "source_commits": [], "add_only": True},
     "engines": [{"name": "ledger", "path": "/verif/check", "serves_properties": claimed,
                  "kind_free_text": "obligation ledger driving cargo-kani (CBMC + kissat) on the real crate and verus on verbatim extractions"}],
     "checks": checks,
     "notes": "fix: commits in /repo: 2c69128 (D1 en-passant prefilter), d90a761 (D2 parser panics), f7ab556 (D3 counter overflow); see known_findings.json. Seeded changes and which obligations report them: seeded/*/meta.json and DESIGN.md section 7.",
     "not_applicable": na}
json.dump(m, open(os.path.join(V, "MANIFEST.json"), "w"), indent=1)
print("claimed", len(checks), "not applicable", len(na))
