#!/bin/bash
# developer helper: fresh copy of /repo's working tree at /tmp/mrepo with one seeded patch applied
set -e
rm -rf /tmp/mrepo
mkdir -p /tmp/mrepo
rsync -a --exclude target --exclude .git /repo/ /tmp/mrepo/
cd /tmp/mrepo
git init -q . >/dev/null 2>&1 || true
if [ -n "$1" ]; then git apply "$1"; fi
