"""The obligation registry: one entry per proof obligation (DESIGN.md 2.1, 4).

Fields: id, props (properties it serves), backend (kani-complete | kani-bounded | verus |
exhaustive-eval), pkg + harness (Kani), spec (Verus), tier (quick: also run by thorough),
fns (real functions under contract), assumes (ids of obligations whose contract is imported),
stmt (the contract in words, shown as a sample in the evidence), bound (for kani-bounded),
expect_panic (regex: the obligation is 'the call always panics with this message').
"""

OBS = []


def K(id, props, harness, fns, stmt, pkg="owlchess", tier="quick", assumes=(), timeout=900, mem_gb=10,
      solver="kissat", bounded=None, expect_panic=None, mem_est=None):
    OBS.append(dict(id=id, props=list(props), backend="kani-bounded" if bounded else "kani-complete", pkg=pkg,
                    harness=harness,
                    fns=list(fns), stmt=stmt, tier=tier, assumes=list(assumes), timeout=timeout, mem_gb=mem_gb,
                    solver=solver, bound=bounded, expect_panic=expect_panic, mem_est=mem_est))


def V(id, props, spec, fns, stmt, tier="quick", assumes=(), timeout=300, rlimit=30):
    OBS.append(dict(id=id, props=list(props), backend="verus", spec=spec, fns=list(fns), stmt=stmt, tier=tier,
                    assumes=list(assumes), timeout=timeout, rlimit=rlimit))


def N(id, props, test, fns, stmt, pkg="owlchess", tier="quick", assumes=(), timeout=900, bounded=None):
    """native exhaustive evaluation of a finite instance set (labelled exhaustive-eval); `bounded` =
    the instance set is a stated finite part of the obligation's domain (never counted as proved)"""
    OBS.append(dict(id=id, props=list(props), backend="exhaustive-eval", pkg=pkg, test=test, fns=list(fns), stmt=stmt,
                    tier=tier, assumes=list(assumes), timeout=timeout, bound=bounded))


# ---------------------------------------------------------------------------------------------
# C20 core value types (chess_base)
# ---------------------------------------------------------------------------------------------
T = "types::verif_kani::"
B = "owlchess_base"
K("C20/types/file-index", ["C20"], T + "c20_file_index_roundtrip", ["File::index", "File::from_index", "File::from_index_unchecked", "File::as_char", "File::from_char"],
  "for all 8 files: from_index(index(f)) == f, as_char == 'a'+index, from_char(as_char(f)) == Some(f)", pkg=B)
K("C20/types/rank-index", ["C20"], T + "c20_rank_index_roundtrip", ["Rank::index", "Rank::from_index", "Rank::from_index_unchecked", "Rank::as_char", "Rank::from_char"],
  "for all 8 ranks: index round trip; rank k has index 8-k and character '0'+k", pkg=B)
K("C20/types/piece-index", ["C20"], T + "c20_piece_index_roundtrip", ["Piece::index", "Piece::from_index", "Piece::from_index_unchecked"],
  "for all 6 pieces: index round trip", pkg=B)
K("C20/types/coord-parts", ["C20", "C19"], T + "c20_coord_index_parts", ["Coord::from_parts", "Coord::file", "Coord::rank", "Coord::index", "Coord::from_index", "Coord::flipped_rank", "Coord::flipped_file", "Coord::diag", "Coord::antidiag"],
  "for all 8x8 (file, rank): index == 8*rank+file, parts round trip, flips mirror one coordinate, diag == file+rank, antidiag == 7-rank+file", pkg=B)
K("C20/types/coord-index", ["C20"], T + "c20_coord_from_index_total", ["Coord::from_index", "Coord::file", "Coord::rank"],
  "for all i < 64: from_index(i).index() == i and file/rank are i%8, i/8", pkg=B)
K("C20/types/coord-shift-add", ["C20", "C19"], T + "c20_coord_shift_add", ["Coord::shift", "Coord::add", "Coord::add_unchecked"],
  "for all squares and deltas in [-8,8]^2: shift == Some(square at (file+df, rank+dr)) iff that is on the board, else None; add(delta) is index arithmetic", pkg=B)
K("C20/types/cell-parts", ["C20"], T + "c20_cell_parts_roundtrip", ["Cell::from_parts", "Cell::color", "Cell::piece", "Cell::index", "Cell::from_index", "Cell::is_free", "Cell::is_occupied"],
  "for all 2x6 (colour, piece): index == 1+6*colour+piece; color/piece invert from_parts; EMPTY is index 0", pkg=B)
K("C20/types/cell-index", ["C20"], T + "c20_cell_index_total", ["Cell::from_index", "Cell::color", "Cell::piece"],
  "for all i < 13: from_index(i) decomposes to the unique (colour, piece) with that index", pkg=B)
K("C20/types/color", ["C20"], T + "c20_color_roundtrip", ["Color::inv", "Color::as_char", "Color::from_char"], "inv is an involution without fixed point; char round trip", pkg=B)
K("C20/types/castling-rights", ["C20"], T + "c20_castling_rights_set_model", ["CastlingRights::has", "CastlingRights::with", "CastlingRights::without", "CastlingRights::set", "CastlingRights::unset", "CastlingRights::unset_color", "CastlingRights::has_color", "CastlingRights::from_index", "CastlingRights::index"],
  "for all 16 values x 4 members x 4 probes: with/without/set/unset/unset_color/has_color agree with set insert/remove/membership; equality is extensional", pkg=B)
for t, msg in (("file", "file index must be between 0 and 7"), ("rank", "rank index must be between 0 and 7"), ("coord", "coord must be between 0 and 63"),
               ("piece", "piece index must be between 0 and 5"), ("cell", "index too large"), ("castling", "raw castling rights must be between 0 and 15")):
    K("C20/types/%s-from-index-rejects" % t, ["C20"], T + "c20_%s_from_index_rejects" % t, ["%s::from_index" % t.capitalize()],
      "for all usize out of range the checked constructor panics (the statement after the call is unreachable)", pkg=B, expect_panic=msg)
K("C20/types/chars-accept-exactly", ["C20", "C12"], T + "c20_chars_accept_exactly", ["File::from_char", "Rank::from_char", "Color::from_char", "Cell::from_char"],
  "for all Unicode scalar values: accepted exactly a-h / 1-8 / w,b / .PKNBRQpknbrq with the documented meaning", pkg=B)
K("C20/types/cell-chars", ["C20"], T + "c20_cell_as_char_roundtrip", ["Cell::as_char", "Cell::as_utf8_char", "Cell::from_char"], "for all 13 cells: from_char(as_char(c)) == c; utf8 pictures pairwise distinct", pkg=B)
K("C20/text/coord-from-str", ["C20", "C12"], T + "c20_coord_from_str_len4", ["<Coord as FromStr>::from_str", "<Coord as Display>::fmt"],
  "for all UTF-8 strings of <= 4 bytes: no panic; Ok iff [a-h][1-8]; value as written; Display gives the input back", pkg=B, bounded="strings of <= 4 bytes (every accepted string has 2)")
K("C20/text/color-cell-from-str", ["C20", "C12"], T + "c20_color_cell_from_str_len3", ["<Color as FromStr>::from_str", "<Cell as FromStr>::from_str", "<Color as Display>::fmt", "<Cell as Display>::fmt"],
  "for all UTF-8 strings of <= 3 bytes: no panic; accepted exactly the one-character spellings; Display gives the input back", pkg=B, bounded="strings of <= 3 bytes (every accepted string has 1)")
K("C20/text/castling-from-str", ["C20", "C12"], T + "c20_castling_from_str_len6", ["<CastlingRights as FromStr>::from_str"],
  "for all UTF-8 strings of <= 6 bytes: no panic; Ok iff '-' or a non-empty duplicate-free word over KQkq, value = its letters", pkg=B, bounded="strings of <= 6 bytes (every accepted string has <= 4)")
K("C20/text/castling-display", ["C20", "C08"], T + "c20_castling_display_roundtrip", ["<CastlingRights as Display>::fmt", "<CastlingRights as FromStr>::from_str"],
  "for all 16 values: text is '-' or members in order KQkq and parses back to the value", pkg=B)
K("C20/text/coord-display", ["C20", "C08"], T + "c20_coord_display_roundtrip", ["<Coord as Display>::fmt", "<Coord as FromStr>::from_str"],
  "for all 64 squares: text is file letter + rank digit and parses back", pkg=B)
K("C20/types/outcome-filter", ["C20", "C14", "C17"], T + "c20_outcome_filter_table", ["Outcome::is_force", "Outcome::passes", "Outcome::winner", "GameStatus::from"],
  "forced outcomes pass every filter, mandatory draws Strict and Relaxed, claimable draws only Relaxed; status token by winner", pkg=B)

BB = "bitboard::verif_kani::"
K("C20/bitboard/insert-remove", ["C20"], BB + "c20_bb_insert_remove_member", ["Bitboard::with", "Bitboard::without", "Bitboard::with2", "Bitboard::without2", "Bitboard::set", "Bitboard::unset", "Bitboard::has", "Bitboard::from_coord", "Bitboard::from_raw", "Bitboard::as_raw"],
  "for all 2^64 sets, all squares c and witness squares i: i in with(c) iff i in a or i == c; i in without(c) iff i in a and i != c; has == membership", pkg=B)
K("C20/bitboard/boolean-algebra", ["C20"], BB + "c20_bb_boolean_algebra", ["Bitboard::bitand", "Bitboard::bitor", "Bitboard::bitxor", "Bitboard::not", "Bitboard::is_empty", "Bitboard::is_nonempty"],
  "for all pairs of sets and witness squares: & | ^ ! are intersection, union, symmetric difference, complement (derive_more output, verified as compiled)", pkg=B)
K("C20/bitboard/len", ["C20"], BB + "c20_bb_len_counts_members", ["Bitboard::len"], "for all 2^64 sets: len == number of member squares", pkg=B)
K("C20/bitboard/shifts-flips", ["C20", "C18"], BB + "c20_bb_shifts_and_flips", ["Bitboard::shl", "Bitboard::shr", "Bitboard::flipped_rank", "Bitboard::flipped_file"],
  "for all sets: shl/shr translate members by index; flipped_rank maps square i to i^56, flipped_file to i^7", pkg=B)
K("C20/bitboard/iter-step", ["C20", "C19"], BB + "c20_bb_iter_step", ["<Iter as Iterator>::next", "Bitboard::into_iter"],
  "for all sets: next() is None iff empty, else the least member (a valid square), and the remaining set is the old set minus it", pkg=B)
K("C20/bitboard/iter-all", ["C20"], BB + "c20_bb_iter_ascending_exactly_once", ["<Iter as Iterator>::next"],
  "for all sets of <= 6 squares: iteration yields strictly ascending valid squares, every member exactly once, len() of them (all sets: induction over iter-step, not mechanised)", pkg=B, timeout=900, bounded="sets with at most 6 members")
K("C20/bitboard/deposit-bits", ["C20"], BB + "c20_bb_deposit_bits", ["Bitboard::deposit_bits"],
  "for all masks and values: the k-th lowest member of the mask is in the result iff bit k of the value is set; nothing else is", pkg=B, timeout=1500)
K("C20/consts/lines-colours", ["C20", "C07"], "bitboard_consts::verif_kani::c20_consts_lines", ["bitboard_consts::DIAG", "bitboard_consts::ANTIDIAG", "bitboard_consts::rank", "bitboard_consts::file", "bitboard_consts::LIGHT_SQUARES", "bitboard_consts::DARK_SQUARES"],
  "for all squares and indices: DIAG[k] has sq iff file+rank == k; ANTIDIAG[k] iff 7-rank+file == k; rank(k)/file(k) iff that coordinate is k; LIGHT iff file+rank even, DARK iff odd (a1 dark)", pkg=B)
K("C20/geometry/ranks-deltas", ["C20", "C18", "C03"], "geometry::verif_kani::c20_geometry_ranks_and_deltas", ["geometry::castling_rank", "geometry::double_move_src_rank", "geometry::double_move_dst_rank", "geometry::promote_src_rank", "geometry::promote_dst_rank", "geometry::enpassant_src_rank", "geometry::enpassant_dst_rank", "geometry::pawn_forward_delta", "geometry::pawn_left_delta", "geometry::pawn_right_delta"],
  "White's home rank is 1, Black's 8; the named ranks are 1,3,4,5,6,7 forward steps from the home rank; left/right = forward -/+ 1; every constant of one colour is the rank mirror of the other's", pkg=B)

# ---------------------------------------------------------------------------------------------
# C15 attack and between tables (tables of the build under test: Kani runs build.rs)
# ---------------------------------------------------------------------------------------------
A = "attack::verif_kani::"
K("C15/attack/leapers-pawns", ["C15", "C19"], A + "c15_leapers_and_pawns", ["attack::king", "attack::knight", "attack::pawn"],
  "for all 64 squares (both colours): king/knight/pawn attack sets == the sets of on-board squares at the king / knight / pawn-capture offsets; table index in bounds")
K("C15/attack/bishop", ["C15", "C19"], A + "c15_bishop_all_squares_all_occupancies", ["attack::bishop"],
  "for all 64 squares x all 2^64 occupancies: bishop(sq, occ) == squares reached by sliding diagonally up to and including the first occupied square; lookup pointer in bounds", timeout=1800)
K("C15/attack/rook-relevant-occupancy", ["C15"], A + "c15_rook_relevant_occupancy_lemma", ["attack::MAGIC_ROOK[..].mask"],
  "for all squares x all 2^64 occupancies: sliding along rank and file sees the occupancy only through occ & mask[sq]; mask[sq] == own rank and file minus the far edge squares minus sq", timeout=1800)
N("C15/attack/rook-mask-subsets", ["C15"], A + "n15_rook_enumerate_all_mask_subsets", ["attack::rook"],
  "for all 64 squares and all 102400 subsets of mask[sq]: rook(sq, subset) == sliding reference (exhaustive native evaluation of the real lookup)",
  assumes=["C15/attack/rook-relevant-occupancy", "C15/attack/lookup-bounds"])
N("C15/attack/lookup-bounds", ["C15", "C19"], A + "n15_lookup_regions_in_bounds", ["attack::rook", "attack::bishop", "attack::MAGIC_ROOK", "attack::MAGIC_BISHOP"],
  "for all 64 squares, rook and bishop: 1 <= shift < 64, popcount(mask) == 64 - shift, and [lookup, lookup + 2^(64-shift)) lies inside the lookup table - so (x * magic) >> shift indexes in bounds for EVERY x (exhaustive native evaluation of the 128 table entries)")
N("C15/attack/bishop-mask-subsets", ["C15"], A + "n15_bishop_enumerate_all_mask_subsets", ["attack::bishop"],
  "redundant cross-check: for all squares and all subsets of the bishop mask, bishop == sliding reference (exhaustive native evaluation)", tier="thorough")
for _i in range(64):
    K("C15/attack/rook-sq%02d" % _i, ["C15", "C19"], A + "c15_rook_sq%02d" % _i, ["attack::rook"],
      "square %d x all 2^64 occupancies: rook == sliding reference, lookup pointer in bounds (direct CBMC proof)" % _i, tier="thorough", timeout=3600, mem_gb=16, mem_est=8)
K("C15/between/all-pairs", ["C15", "C19"], "between::verif_kani::c15_between_all_pairs", ["between::bishop_strict", "between::rook_strict", "between::is_bishop_valid", "between::is_rook_valid"],
  "for all 64x64 pairs: is_bishop_valid iff distinct on a common diagonal, is_rook_valid iff distinct on a common rank/file; for aligned pairs *_strict(a,b) == *_strict(b,a) == squares strictly between")
K("C15/between/spec-link", ["C15"], "between::verif_kani::c15_between_ref_is_sliding_geometry", [],
  "spec-level lemma: strictly-between == intersection of the two slides towards each other (reference self-consistency)")
K("C15/castling/masks", ["C15", "C03", "C06", "C18"], "castling::verif_kani::c15_castling_masks", ["castling::pass", "castling::srcs", "castling::offset", "castling::ALL_SRCS", "generic::Color::CASTLING_OFFSET"],
  "both colours: pass == squares strictly between king and rook; srcs == home squares of king and rook; offsets are the home rank")
K("C15/pawns/advances", ["C15", "C18"], "pawns::verif_kani::c15_pawn_advances", ["pawns::advance_forward", "pawns::advance_left", "pawns::advance_right"],
  "for all 2^64 pawn sets, both colours, witness square t: t in advance_X(set) iff the square one pawn step X back from t is on the board and in the set")

# ---------------------------------------------------------------------------------------------
# C16 attack and check queries
# ---------------------------------------------------------------------------------------------
TABLES = ["C15/attack/leapers-pawns", "C15/attack/bishop", "C15/attack/rook-relevant-occupancy", "C15/attack/rook-mask-subsets"]
MG = "movegen::verif_kani::"
for _c in ("white", "black"):
    K("C16/attackers/%s" % _c, ["C16", "C19"], MG + "c16_attackers_%s" % _c, ["movegen::do_cell_attackers", "movegen::do_is_cell_attacked", "movegen::cell_attackers", "movegen::is_cell_attacked", "Board::piece2", "Board::piece_diag", "Board::piece_line"],
      "for all well-formed boards (any men, any counts) x 64 squares: attackers(sq, %s) == the men of that colour that could capture on sq by a pseudo-legal non-en-passant capture (reference walk from the square); is_attacked == non-empty" % _c,
      assumes=TABLES)
for _c in ("w", "b"):
    K("C16/check-queries/%s" % _c, ["C16", "C19"], "movegen::verif_kani_b::c16_check_queries_%s" % _c, ["Board::is_check", "Board::checkers", "Board::is_opponent_king_attacked", "Board::king_pos"],
      "for all well-formed boards with one king each (side %s to move): king_pos is the king's square (unwrap never fails), checkers == attackers of the mover's king, is_check == non-empty, is_opponent_king_attacked == the other king is attacked by the mover" % _c,
      assumes=TABLES, timeout=2400)
CHECKQ = ["C16/check-queries/w", "C16/check-queries/b"]

# ---------------------------------------------------------------------------------------------
# C06 well-formedness and semilegal validation; C03/C04/C05 step contracts
# ---------------------------------------------------------------------------------------------
MB = "moves::base::verif_kani::"
KINDS = [("simple", "Simple"), ("castle_k", "CastlingKingside"), ("castle_q", "CastlingQueenside"), ("double", "PawnDouble"), ("ep", "Enpassant"),
         ("promo_n", "PromoteKnight"), ("promo_b", "PromoteBishop"), ("promo_r", "PromoteRook"), ("promo_q", "PromoteQueen")]
ATT = ["C16/attackers/white", "C16/attackers/black"]
# the three under-promotions run exactly the code of PromoteQueen (the kind -> piece table is
# C06/constructors); their per-kind obligations are thorough-tier
def KTIER(kind):
    return "thorough" if kind in ("PromoteKnight", "PromoteBishop", "PromoteRook") else "quick"
K("C06/well-formed", ["C06", "C01", "C02", "C19"], MB + "c06_well_formed_all_tuples", ["Move::is_well_formed", "Move::new", "Move::new_unchecked", "Move::kind", "Move::src", "Move::dst", "Move::src_cell"],
  "for all 10 x 13 x 64 x 64 tuples: is_well_formed == geometric possibility for that kind (reference), Move::new returns Ok(exactly that move) iff well-formed",
  assumes=["C15/attack/leapers-pawns", "C15/between/all-pairs"])
K("C06/constructors", ["C06", "C02"], MB + "c06_constructors_well_formed", ["Move::NULL", "Move::from_castling", "MoveKind::promote", "MoveKind::matches_piece"],
  "NULL and from_castling (both colours, both sides) are well-formed; promote()/matches_piece() tables")
for _s, _k in KINDS:
    for _c in ("w", "b"):
        K("C06/semilegal/%s/%s" % (_k, _c), ["C06", "C01", "C02", "C19"], MB + "c06_semilegal_%s_%s" % (_s, _c), ["Move::is_semilegal", "Move::semi_validate", "moves::base::do_is_move_semilegal", "moves::base::is_queen_semilegal"],
          "for all well-formed boards (side %s, consistent en-passant mark) x all well-formed moves of kind %s: is_semilegal == pseudo-legal by the rules (reference); all unchecked square arithmetic in bounds" % (_c, _k),
          assumes=ATT + ["C15/between/all-pairs", "C15/castling/masks", "C06/well-formed"])
K("C06/semilegal/Null", ["C06", "C02", "C10"], MB + "c06_semilegal_null_never", ["Move::is_semilegal"], "the null move is never semilegal")
for _s, _k in KINDS + [("null", "Null")]:
    for _c in ("w", "b"):
        K("C03/make/%s/%s" % (_k, _c), ["C03", "C04", "C02", "C19"], MB + "c03_make_%s_%s" % (_s, _c),
          ["moves::base::make_move_unchecked", "moves::base::unmake_move_unchecked", "moves::base::do_make_move", "moves::base::do_unmake_move", "moves::base::update_castling",
           "moves::base::do_make_pawn_double", "moves::base::do_make_enpassant", "moves::base::do_make_castling_kingside", "moves::base::do_make_castling_queenside", "RawBoard::put", "Board::color_mut", "Board::piece_mut"],
          "for all well-formed boards (side %s; consistent mark; rights only with king and rook at home; ANY counters) x all pseudo-legal moves of kind %s (incl. those leaving the king attacked): after make, the six raw fields == ref_apply (saturating counters), derived sets well-formed at every square; after unmake every field, the hash and all 16 sets equal the original" % (_c, _k),
          assumes=ATT + (["C06/semilegal/%s/%s" % (_k, _c)] if _k != "Null" else []), tier=KTIER(_k))
        K("C05/hash-delta/%s/%s" % (_k, _c), ["C05", "C02", "C14"], "moves::base::verif_kani_b::c05_delta_%s_%s" % (_s, _c), ["moves::base::do_make_move", "moves::base::update_castling", "zobrist::pieces", "zobrist::castling", "zobrist::enpassant", "zobrist::castling_delta"],
          "for all boards as above (ANY stored hash) and every pseudo-legal move of kind %s (side %s): new.hash ^ old.hash == side key ^ old and new rights keys ^ old and new mark keys ^ XOR over the <= 4 squares the move touches of (old key ^ new key); every other square of the reference result is unchanged (frame)" % (_k, _c),
          assumes=["C03/make/%s/%s" % (_k, _c)], tier=KTIER(_k))
K("C05/keys/single-feature", ["C05", "C19"], "zobrist::verif_kani::c05_keys_single_feature_differences", ["zobrist::pieces", "zobrist::castling", "zobrist::enpassant", "zobrist::MOVE_SIDE"],
  "tables of this build: empty-cell key is 0; keys of two different cells on one square differ; side key != 0; toggling one castling right changes the castling key; en-passant keys are non-zero and pairwise different; every index in range")
K("C05/keys/castling-delta", ["C05"], "zobrist::verif_kani::c05_castling_delta_keys", ["zobrist::castling_delta"],
  "both colours: the precombined castling delta == XOR of the king and rook keys on their old and new squares")

BD = "board::verif_kani::"
K("C05/scratch/zobrist-hash", ["C05", "C19"], "board::verif_kani_b::c05_zobrist_hash_is_the_definition", ["RawBoard::zobrist_hash"],
  "for all raw boards (13^64 placements, side, rights, mark, counters): zobrist_hash == side key ^ mark key ^ rights key ^ XOR of piece keys of the occupied squares, over the key tables of this build; neither counter enters",
  assumes=["C05/keys/tables-read"], timeout=3000, mem_gb=32, mem_est=12, tier="thorough")
K("C05/scratch/zobrist-hash-shape", ["C05", "C11", "C14"], "board::verif_kani_g::c05_zobrist_hash_fold_shape", ["RawBoard::zobrist_hash"],
  "for all raw boards, with the three key accessors imported by contract (pure functions; instantiated with the projection onto an arbitrary witness square): zobrist_hash == side key (White only) ^ mark key of the marked square ^ rights key of the rights set ^ piece key of (cell, square) for the occupied witness square - nothing else; neither counter enters (the comparison with the fold over the real key tables for all boards is C05/scratch/zobrist-hash, thorough)",
  assumes=["C05/keys/tables-read"], timeout=900)
K("C05/keys/tables-read", ["C05", "C19"], "zobrist::verif_kani_b::c05_key_functions_read_the_tables", ["zobrist::pieces", "zobrist::enpassant", "zobrist::castling"],
  "for all cells, squares and rights sets: the key functions return the corresponding table entries (index in bounds)")
K("C07/insufficient", ["C07"], BD + "c07_insufficient_material", ["Board::is_insufficient_material"],
  "for all well-formed boards: is_insufficient_material == (besides kings: nothing, or a single knight, or only bishops all on one square colour), counted over the squares",
  assumes=["C20/consts/lines-colours"])
K("C07/calc-outcome", ["C07", "C14"], BD + "c07_calc_outcome_precedence", ["Board::calc_outcome", "Board::calc_draw_simple"],
  "for all well-formed boards with one king each and either answer of has_legal_moves (imported contract): checkmate (won by the side not to move) iff no move and in check; stalemate iff no move and not in check; else insufficient material, else 75-move (clock >= 150), else 50-move (clock >= 100), else none",
  assumes=["C07/insufficient", "C16/check-queries/w", "C16/check-queries/b"] + TABLES)
K("C11/try-from/accepts-one-query", ["C11", "C02", "C19"], BD + "c11_try_from_accepts_exactly_valid", ["<Board as TryFrom<RawBoard>>::try_from"],
  "for all raw boards: try_from is Ok iff (mark on the right rank, <= 16 men a side, exactly one king each, no pawn on rank 1/8, side not to move not in check); on Err the reported condition (with its square / colour) really holds",
  assumes=ATT, timeout=3000, mem_gb=32, mem_est=12, tier="thorough")
K("C11/try-from/accepts", ["C11", "C02", "C19"], "board::verif_kani_c::c11_try_from_ok_iff_valid", ["<Board as TryFrom<RawBoard>>::try_from"],
  "for all raw boards (13^64 placements, side, rights, mark, counters): try_from is Ok iff (mark on the right rank, <= 16 men a side, exactly one king each, no pawn on rank 1/8, side not to move not in check); RawBoard::zobrist_hash imported (plays no part in acceptance)",
  assumes=ATT, timeout=2400, mem_gb=24, mem_est=8)
K("C11/try-from/error-is-true", ["C11", "C02"], "board::verif_kani_c::c11_try_from_error_is_true", ["<Board as TryFrom<RawBoard>>::try_from"],
  "for all raw boards: on Err the reported condition really holds, with the square / colour it carries (InvalidEnpassant: that mark, wrong rank; TooManyPieces / NoKing / TooManyKings: that colour; InvalidPawn: a pawn on rank 1/8 at that square; OpponentKingAttacked)",
  assumes=ATT, timeout=2400, mem_gb=24, mem_est=8)
K("C11/try-from/normalised", ["C11", "C02", "C05"], "board::verif_kani_c::c11_try_from_result_normalised_wf_hashed_v3", ["<Board as TryFrom<RawBoard>>::try_from"],
  "for all raw boards accepted: result == input except rights without king/rook at home and a mark without enemy pawn / with an occupied square behind it; derived sets well-formed at every square; stored hash == RawBoard::zobrist_hash of the stored raw board (callee imported by contract: a pure function of cells, side, rights and mark, instantiated with the projection onto an arbitrary witness square)",
  assumes=ATT + ["C05/scratch/zobrist-hash-shape"], timeout=1800)
K("C11/spec/idempotent", ["C11"], BD + "c11_normalise_idempotent_and_valid", [],
  "spec-level lemma: ref_normalise is idempotent and preserves ref_valid (so re-validating a validated board changes nothing)", timeout=1800)

# ---------------------------------------------------------------------------------------------
# C01 legality decision
# ---------------------------------------------------------------------------------------------
LG = "legal::verif_kani::"
ISLEGAL = []
for _s, _k in KINDS:
    for _c in ("w", "b"):
        K("C01/legal/is-legal/%s/%s" % (_k, _c), ["C01", "C02", "C07", "C09"], LG + "c01_is_legal_%s_%s" % (_s, _c),
          ["legal::Checker::new", "legal::Checker::is_legal", "legal::Checker::is_attacked", "legal::NilPrechecker::is_legal_pre", "Move::is_legal_unchecked"],
          "for all well-formed boards (side %s, one king each, consistent mark, normalised rights) x all pseudo-legal moves of kind %s: Move::is_legal_unchecked (Checker without prefilter) == (mover's king not attacked in ref_apply(position, move))" % (_c, _k),
          assumes=TABLES + ["C15/pawns/advances", "C16/check-queries/w", "C16/check-queries/b", "C06/semilegal/%s/%s" % (_k, _c)], timeout=3600, mem_gb=16, tier=KTIER(_k))
        K("C01/legal/is-legal-prefilter/%s/%s" % (_k, _c), ["C01", "C02", "C07", "C09"], LG + "c01_is_legal_pre_%s_%s" % (_s, _c),
          ["legal::Checker::new", "legal::Checker::is_legal", "legal::Checker::is_attacked", "legal::DefaultPrechecker::new", "legal::DefaultPrechecker::pinned",
           "legal::DefaultPrechecker::bishop_xray", "legal::DefaultPrechecker::rook_xray", "legal::DefaultPrechecker::is_legal_pre"],
          "the same with the pin / check prefilter (DefaultPrechecker: the decision used by the legal generators, has_legal_moves and SAN): == (mover's king not attacked in ref_apply(position, move)), side %s, kind %s" % (_c, _k),
          assumes=TABLES + ["C15/between/all-pairs", "C15/pawns/advances", "C16/check-queries/w", "C16/check-queries/b", "C06/semilegal/%s/%s" % (_k, _c)], timeout=3600, mem_gb=16, tier=KTIER(_k))
        ISLEGAL += ["C01/legal/is-legal/%s/%s" % (_k, _c), "C01/legal/is-legal-prefilter/%s/%s" % (_k, _c)]
for _c in ("w", "b"):
    K("C01/legal/is-legal-prefilter/king-moves/%s" % _c, ["C01", "C07", "C09", "C02"], "legal::verif_kani_c::c01_is_legal_pre_king_%s" % _c,
      ["legal::Checker::new", "legal::Checker::is_legal", "legal::DefaultPrechecker::new", "legal::DefaultPrechecker::pinned", "legal::DefaultPrechecker::is_legal_pre"],
      "the prefilter on the plain moves of the KING (side %s): == (king not attacked in ref_apply(position, move)); quick-tier form of is-legal-prefilter/Simple (every piece: thorough), which pins down that the king itself is never shortcut" % _c,
      assumes=TABLES + ["C15/between/all-pairs", "C16/check-queries/w", "C16/check-queries/b"], timeout=1800, mem_gb=16)
K("C01/validate-glue", ["C01", "C02", "C09", "C10"], MB + "c01_validate_glue", ["Move::validate", "Move::semi_validate"],
  "with is_semilegal and is_legal_unchecked imported as free booleans: semi_validate is Ok iff semilegal (else NotSemiLegal); validate is Err(NotSemiLegal) if not semilegal, else Ok iff legal, else Err(NotLegal)",
  assumes=ISLEGAL)

# ---------------------------------------------------------------------------------------------
# Layer V: move chains (C13, C14) - extracted verbatim, verified by Verus
# ---------------------------------------------------------------------------------------------
STEP = ["C03/make/%s/%s" % (_k, _c) for _s, _k in KINDS + [("null", "Null")] for _c in ("w", "b")]
V("C13/chain/verus", ["C13", "C14", "C04", "C02", "C05"], "chain.vspec",
  ["BaseMoveChain::new", "BaseMoveChain::startpos", "BaseMoveChain::last", "BaseMoveChain::len", "BaseMoveChain::is_empty", "BaseMoveChain::get", "BaseMoveChain::outcome",
   "BaseMoveChain::is_finished", "BaseMoveChain::clear_outcome", "BaseMoveChain::set_outcome", "BaseMoveChain::reset_outcome", "BaseMoveChain::calc_outcome",
   "BaseMoveChain::set_auto_outcome", "BaseMoveChain::do_finish_push", "BaseMoveChain::push_unchecked", "BaseMoveChain::push", "BaseMoveChain::pop", "Outcome::is_force", "Outcome::passes"],
  "for chains of ANY length and any Repeat / Make implementation satisfying their contracts: push on Ok appends exactly the denoted legal move (board == apply, undo recorded, table +1), on Err changes nothing; pop removes exactly the last entry, restores the previous board, clears the outcome, table -1; lemmas: the chain invariant (board == replay(start, moves), undo data and legality of every entry, table == multiset of all positions so far) is established by new and preserved by push/pop/outcome operations; calc_outcome satisfies the C14 precedence relation; set_auto_outcome stores exactly when the filter passes; history lemmas (any length): an invariant preserved by every step holds along every history (C05), and undoing a whole history newest-first returns the start position (C04)",
  assumes=STEP + ["C07/calc-outcome", "C11/try-from/normalised", "C20/types/outcome-filter"] + ["C05/hash-delta/%s/%s" % (_k, _c) for _s, _k in KINDS + [("null", "Null")] for _c in ("w", "b")])

# ---------------------------------------------------------------------------------------------
# C02 the safe application path; C10 UCI
# ---------------------------------------------------------------------------------------------
MK = "moves::make::verif_kani::"
for _s, _k in KINDS + [("null", "Null")]:
    for _c in ("w", "b"):
        K("C02/make-move/%s/%s" % (_k, _c), ["C02", "C01", "C04"], MK + "c02_make_%s_%s" % (_s, _c),
          ["<Move as Make>::make_raw", "<TryUnchecked as Make>::make_raw", "Move::semi_validate", "moves::base::make_move_unchecked", "moves::base::unmake_move_unchecked", "Board::is_opponent_king_attacked"],
          "for all well-formed boards (side %s, one king each, consistent mark, normalised rights, any counters) x all WELL-FORMED moves of kind %s: make_raw is Ok iff the move is legal by the rules; on Ok the position is ref_apply(..) with well-formed derived sets and the mover's king is not attacked; on Err every field, the hash and all 16 sets are exactly as before; no panic" % (_c, _k),
          assumes=ATT, timeout=3000, mem_gb=16, tier=KTIER(_k))
UC = "moves::uci::verif_kani::"
for _c in ("w", "b"):
    K("C10/into-move/%s" % _c, ["C10", "C02", "C12"], UC + "c10_into_move_%s" % _c, ["uci::Move::into_move", "uci::Move::do_into_move", "<uci::Move as From<Move>>::from"],
      "for all well-formed boards (side %s) x all UCI values (64x64x5): Ok(m) => m has those squares / that promotion, is well-formed and writes back to the same value; and whenever a pseudo-legal move of ANY kind has those squares and promotion, into_move returns exactly that move (kind inference; round trip; reader accepts iff such a move exists, with C06)" % _c,
      assumes=["C06/well-formed"] + ["C06/semilegal/%s/%s" % (_k, _c) for _s, _k in KINDS], timeout=2400)
K("C10/null", ["C10", "C02"], UC + "c10_null_uci", ["uci::Move::into_move", "Move::semi_validate", "Move::validate"], "'0000' resolves to the null move, which no checking reader and no Make impl accepts")
K("C10/text/from-str", ["C10", "C12", "C02"], UC + "c10_uci_from_str_all_short_strings", ["<uci::Move as FromStr>::from_str"],
  "for all UTF-8 strings of <= 6 bytes: no panic; Ok iff '0000' or [a-h][1-8][a-h][1-8][nbrq]?, with the value as written (complete for the property's 20 481 strings and for every acceptable string)",
  bounded="strings of <= 6 bytes (every accepted string has 4 or 5)", timeout=1800)
K("C10/text/display", ["C10", "C12"], UC + "c10_uci_display_parses_back", ["<uci::Move as Display>::fmt", "<uci::Move as FromStr>::from_str"],
  "for all 20 481 UCI values: the text is the coordinate notation and parses back to the value", timeout=1800)

# ---------------------------------------------------------------------------------------------
# generators (C01 item 3, C06 item 3, C07 has_legal_moves): witness-sink obligations per private
# sub-generator; the dispatchers are Layer V (movegen.vspec)
# ---------------------------------------------------------------------------------------------
GENFN = {"knight": ["movegen::MoveGenImpl::gen_knight", "movegen::MoveGenImpl::do_gen_kn"], "king": ["movegen::MoveGenImpl::gen_king", "movegen::MoveGenImpl::do_gen_kn"],
         "bishop": ["movegen::MoveGenImpl::do_gen_brq"], "rook": ["movegen::MoveGenImpl::do_gen_brq"], "queen": ["movegen::MoveGenImpl::do_gen_brq"]}
GENLOOP = {"knight": ("do_gen_kn", 9), "king": ("do_gen_kn", 9), "bishop": ("do_gen_brq", 14), "rook": ("do_gen_brq", 15), "queen": ("do_gen_brq", 28)}
GEN_ALL = []      # the complete obligations the dispatcher proof imports
GEN_QUICK = []    # what the quick tier runs for them (bounded variants for N/B/R/Q)


def _gen(idname, harness, piece, flags, colour, maxk, tier, what, props=("C01", "C06", "C07", "C19")):
    fn, inner = GENLOOP[piece]
    bounded = None if maxk >= 16 or piece == "king" else "at most %d %ss of the moving colour (outer loop of the generator unwound %d times); complete variant: thorough tier" % (maxk, piece, maxk + 1)
    K(idname, list(props), MG + harness, GENFN[piece] + ["movegen::MoveGenImpl::add_move", "movegen::MoveGenImpl::allowed_mask"],
      "for all well-formed boards (side %s, <= 16 men a side%s) and an ARBITRARY witness move w of a %s: %s" % (colour, "" if bounded is None else ", <= %d %ss" % (maxk, piece), piece, what),
      assumes=TABLES + ["C20/bitboard/iter-step"], tier=tier, timeout=5400, mem_gb=24, mem_est=6 if piece == "queen" else 4, bounded=bounded)
    OBS[-1]["unwindset"] = [(fn, 1, min(maxk, 16) + 1), (fn, 0, inner)]


for _p in ("knight", "king", "bishop", "rook", "queen"):
    for _c in ("w", "b"):
        for _f, _fd in ((("tt", "all targets"), ("tf", "non-captures only"), ("ft", "captures only"), ("ff", "nothing")) if _p in ("knight", "king") else (("tt", "all targets"),)):
            _id = "C01/gen/%s/%s/%s" % (_p, _f, _c)
            GEN_ALL.append(_id)
            _what = "the generator with flags %s (%s) pushes w exactly once iff w is pseudo-legal by the rules and in that class, never otherwise" % (_f, _fd)
            _gen(_id, "gen_%s_%s_%s" % (_p, _f, _c), _p, _f, _c, 1 if _p == "king" else 16, "quick" if (_p == "king" and _f == "tt") else "thorough", _what)
            if _p == "king" and _f == "tt":
                GEN_QUICK.append(_id)
            if _p != "king" and _f == "tt":
                _gen(_id + "/le3", "gen_%s_%s_%s_q" % (_p, _f, _c), _p, _f, _c, 3, "quick", _what)
                GEN_QUICK.append(_id + "/le3")
K("C01/gen/allowed-mask", ["C01", "C06"], MG + "gen_allowed_mask_flags", ["movegen::MoveGenImpl::allowed_mask"],
  "for all boards, both colours: allowed_mask<S,C> == not-own / empty / enemy / nothing for (t,t) (t,f) (f,t) (f,f) - the only place the flags enter the piece generators")
for _f, _fd in (("tt", "single and double steps and promotions"), ("tf", "no promotions"), ("ft", "promotions only")):
    for _c in ("w", "b"):
        _id = "C01/gen/pawn-simple/%s/%s" % (_f, _c)
        GEN_ALL.append(_id)
        K(_id, ["C01", "C06", "C07", "C19"], MG + "gen_pawn_simple_%s_%s" % (_f, _c), ["movegen::MoveGenImpl::gen_pawn_simple", "movegen::MoveGenImpl::do_gen_pawn_single", "movegen::MoveGenImpl::do_gen_pawn_double", "movegen::MoveGenImpl::add_pawn_with_promote"],
          "for all well-formed boards (side %s, <= 16 men, no pawn on a back rank) and an arbitrary witness pawn move w: gen_pawn_simple<%s> (%s) pushes w exactly once iff w is a pseudo-legal straight pawn move of that class; unchecked square arithmetic in bounds" % (_c, _f, _fd),
          assumes=["C15/pawns/advances", "C20/bitboard/iter-step", "C20/consts/lines-colours"], tier="quick" if _f == "tt" else "thorough", timeout=3000, mem_gb=16)
for _g, _gd, _fn in (("pawn_capture", "ordinary pawn captures (incl. capture-promotions, all four pieces)", ["movegen::MoveGenImpl::gen_pawn_capture", "movegen::MoveGenImpl::do_gen_pawn_capture"]),
                     ("pawn_enpassant", "en-passant captures", ["movegen::MoveGenImpl::gen_pawn_enpassant"]),
                     ("castling", "castlings", ["movegen::MoveGenImpl::gen_castling"])):
    for _c in ("w", "b"):
        _id = "C01/gen/%s/%s" % (_g.replace("_", "-"), _c)
        GEN_ALL.append(_id)
        K(_id, ["C01", "C06", "C07", "C19"], MG + "gen_%s_%s" % (_g, _c), _fn + ["movegen::MoveGenImpl::add_move"],
          "for all well-formed boards (side %s, <= 16 men, no back-rank pawns, consistent mark) and an arbitrary witness move w: the generator pushes w exactly once iff w is one of the pseudo-legal %s" % (_c, _gd),
          assumes=ATT + ["C15/pawns/advances", "C15/castling/masks"], timeout=3000, mem_gb=16)
EXITS = []
EXITS_QUICK = []
for _g in ("knight", "king", "bishop", "rook", "queen", "pawn_simple", "pawn_capture", "pawn_enpassant"):
    for _c in ("w", "b"):
        _id = "C07/gen-exit/%s/%s" % (_g.replace("_", "-"), _c)
        EXITS.append(_id)
        _stmt = "for all well-formed boards (side %s, <= 16 men, no back-rank pawns, consistent mark) and an arbitrary witness move w refused by the sink: the sub-generator returns Err iff w is one of the moves it generates, and pushes nothing after the refusal (so with any sink it stops at, and reports, the first refused move - has_legal_moves)" % _c
        _slider = _g in ("knight", "bishop", "rook", "queen")
        K(_id, ["C07", "C19"], MG + "exit_%s_%s" % (_g, _c), ["movegen::MoveGenImpl (sub-generator %s)" % _g], _stmt,
          assumes=TABLES, timeout=5400, mem_gb=24, mem_est=5, tier="thorough" if _slider else "quick")
        if _g in GENLOOP:
            OBS[-1]["unwindset"] = [(GENLOOP[_g][0], 1, 2 if _g == "king" else 17), (GENLOOP[_g][0], 0, GENLOOP[_g][1])]
        if _slider:
            K(_id + "/le3", ["C07", "C19"], MG + "exit_%s_%s_q" % (_g, _c), ["movegen::MoveGenImpl (sub-generator %s)" % _g], _stmt,
              assumes=TABLES, timeout=3600, mem_gb=16, bounded="at most 3 %ss of the moving colour; complete variant: thorough tier" % _g)
            OBS[-1]["unwindset"] = [(GENLOOP[_g][0], 1, 4), (GENLOOP[_g][0], 0, GENLOOP[_g][1])]
            EXITS_QUICK.append(_id + "/le3")
        else:
            EXITS_QUICK.append(_id)

K("C07/legal-filter", ["C07", "C01", "C09"], "movegen::verif_kani_b::c07_legal_filter_glue", ["movegen::LegalFilter::new", "movegen::LegalFilter::push", "movegen::ErrOnFirst::push"],
  "for all boards with one king each and any move, with Checker::is_legal imported as a free boolean: LegalFilter::push forwards the move to the inner sink exactly when the checker says legal and returns the inner sink's answer; ErrOnFirst refuses every push",
  assumes=ISLEGAL)

V("C01/gen/dispatch", ["C01", "C06", "C07"], "movegen.vspec",
  ["movegen::MoveGenImpl::gen", "movegen::MoveGenImpl::gen_brq", "movegen::MoveGenImpl::gen_for_has_legal_moves", "movegen::MoveGenImpl::gen_all", "movegen::MoveGenImpl::gen_capture",
   "movegen::MoveGenImpl::gen_simple", "movegen::MoveGenImpl::gen_simple_no_promote", "movegen::MoveGenImpl::gen_simple_promote"],
  "for every sink and every board: gen_all / gen_capture / gen_simple / gen_simple_no_promote / gen_simple_promote run exactly the move classes the property assigns to them (all; captures incl. en passant and capture-promotions; non-captures incl. castling; the same without / only straight promotions), each class once, and on a refused push stop inside that class; gen_for_has_legal_moves runs every class except castling",
  assumes=GEN_ALL + ["C01/gen/allowed-mask"], rlimit=300)

V("C17/walker/verus", ["C17", "C04"], "walker.vspec",
  ["Walker::len", "Walker::is_empty", "Walker::pos", "Walker::set_board_pos", "Walker::next", "Walker::prev", "Walker::start", "Walker::end"],
  "for stacks of ANY length and any interleaving of next / prev / start / end: the walker's private board is always position number board_pos of the one sequence of positions the stack records (each entry applied to / undone from exactly the position it was recorded for - the precondition of unmake holds at every call); next returns (position before move pos, move pos), prev returns (position before move pos-1, move pos-1); None exactly at the ends; the chain is only borrowed shared (type system)",
  assumes=STEP)

# ---------------------------------------------------------------------------------------------
# C09 SAN
# ---------------------------------------------------------------------------------------------
SN = "moves::san::verif_kani::"
for _c in ("w", "b"):
    K("C09/candidates/pieces/%s" % _c, ["C09", "C19"], MG + "c09_san_candidates_%s" % _c, ["movegen::MoveGenImpl::san_candidates"],
      "for all well-formed boards (side %s, <= 16 men), every non-pawn piece kind and destination, and an arbitrary witness move w: san_candidates pushes w exactly once iff w is a pseudo-legal simple move of that piece to that destination" % _c,
      assumes=TABLES, timeout=3000, mem_gb=16)
    K("C09/candidates/pawn-captures/%s" % _c, ["C09", "C19"], MG + "c09_san_pawn_candidates_%s" % _c, ["movegen::MoveGenImpl::san_pawn_capture_candidates"],
      "for all well-formed boards (side %s, <= 16 men, no back-rank pawns, consistent mark), all file pairs and promotions, and an arbitrary witness move w: pushes w exactly once iff w is a pseudo-legal pawn capture (ordinary, promoting or en passant) from that file to that adjacent file with that promotion" % _c,
      assumes=["C15/pawns/advances"], timeout=3000, mem_gb=16)
CANDS = ["C09/candidates/pieces/w", "C09/candidates/pieces/b", "C09/candidates/pawn-captures/w", "C09/candidates/pawn-captures/b", "C07/legal-filter"]
K("C09/from-move/simple", ["C09"], SN + "c09_from_move_simple_disambiguation", ["san::Data::from_move", "san::AmbigDetector::push", "san::AmbigDetector::file", "san::AmbigDetector::rank"],
  "for all boards, all non-pawn simple moves and EVERY candidate list the imported contract of san_candidates allows (<= 8 legal moves of that piece to that square, the move itself among them): the SAN data has the piece, the destination, the capture flag (destination occupied), and the MINIMAL origin hint: none if no other candidate; the file if no other candidate shares it; else the rank if no other shares that; else both",
  assumes=CANDS)
K("C09/from-move/pawns-castling", ["C09"], "moves::san::verif_kani_c::c09_from_move_pawns_castling_v2", ["san::Data::from_move"],
  "for all well-formed pawn / castling / null moves: straight pawn moves are written as destination (+promotion), diagonal ones incl. en passant as file x destination (+promotion), castlings as O-O / O-O-O")
K("C09/into-move/simple", ["C09", "C02"], "moves::san::verif_kani_c::c09_into_move_simple_v2", ["san::Data::into_move", "san::AmbigSearcher::new", "san::AmbigSearcher::push", "san::AmbigSearcher::get_move"],
  "for all boards, all Simple SAN values (piece, optional file, optional rank, capture flag, destination) and every candidate list allowed by the contract: Ok(m) => m is a candidate agreeing with the hints and the only one; two or more agreeing candidates => Ambiguity naming two distinct ones; none => NotFound; capture sign on an empty destination => CaptureExpected",
  assumes=CANDS)
K("C09/into-move/pawn-capture-short", ["C09", "C02"], SN + "c09_into_move_pawn_capture_short", ["san::Data::into_move"],
  "for all boards and candidate lists: the short pawn-capture form resolves to the unique candidate, reports Ambiguity for two or more, NotFound for none", assumes=CANDS)
for _v in ("pawn_move", "pawn_capture", "castling"):
    for _c in ("w", "b"):
        K("C09/into-move/built/%s/%s" % (_v.replace("_", "-"), _c), ["C09", "C02", "C12"], "moves::san::verif_kani_c::c09_built_%s_%s" % (_v, _c), ["san::Data::into_move"],
          "for all well-formed boards (side %s) and ALL field values of the %s SAN form, with Move::validate imported by contract: no panic (square arithmetic guarded); Ok(m) => m is legal by the rules and is the move written (pawn to the written destination from the written / same file with the written promotion, resp. a castling)" % (_c, _v.replace("_", " ")),
          assumes=ISLEGAL + ["C06/well-formed", "C01/validate-glue"], timeout=2400, mem_gb=32, mem_est=8)
for _v, _d in (("castling", "O-O / O-O-O"), ("pawn_move", "destination [=promotion]"), ("pawn_capture", "file x destination [=promotion]"), ("piece_move", "piece letter [file][rank][x] destination")):
    K("C09/text-fmt/%s" % _v.replace("_", "-"), ["C09"], "moves::san::verif_kani_b::c09_fmt_%s" % _v, ["<san::Move as Display>::fmt", "san::Data::do_fmt", "san::Move::do_fmt"],
      "for every SAN value of this variant that from_move can produce (all field values x check marks none / + / #): the text is the standard algebraic notation (%s, then + or #)" % _d,
      timeout=3000, mem_gb=24, mem_est=8)
    K("C09/text/%s" % _v.replace("_", "-"), ["C09", "C12"], "moves::san::verif_kani_b::c09_text_%s" % _v, ["<san::Move as Display>::fmt", "san::Data::do_fmt", "san::Move::do_fmt", "<san::Move as FromStr>::from_str", "<san::Data as FromStr>::from_str"],
      "the same, and parsing the text gives the value back (hence distinct values get distinct texts)",
      timeout=5400, mem_gb=24, mem_est=8, tier="thorough")
K("C12/san/from-str-6", ["C12", "C09", "C02"], "moves::san::verif_kani_b::c12_san_from_str_total_len6", ["<san::Move as FromStr>::from_str", "<san::Data as FromStr>::from_str"],
  "for all UTF-8 strings of <= 6 bytes: SAN parsing returns a value or an error, never panics", bounded="strings of <= 6 bytes", assumes=["C12/utf8-predicate"], timeout=5400, mem_gb=24, mem_est=8, tier="thorough")
K("C12/utf8-predicate", ["C12"], "moves::san::verif_kani_b::c12_utf8_predicate_agrees_with_std", [],
  "harness-side helper: the byte automaton used to decide UTF-8 validity of symbolic strings agrees with core::str::from_utf8 on every byte string of <= 5 bytes", bounded="byte strings of <= 5 bytes", timeout=2400, mem_gb=24, mem_est=8)
K("C12/san/from-str", ["C12", "C09", "C02"], SN + "c12_san_from_str_total_len7", ["<san::Move as FromStr>::from_str", "<san::Data as FromStr>::from_str"],
  "for all UTF-8 strings of <= 7 bytes: SAN parsing returns a value or an error, never panics (slicing, from_utf8 unwraps, length arithmetic)", bounded="strings of <= 7 bytes", timeout=3600, mem_gb=32, mem_est=14, tier="thorough")

# ---------------------------------------------------------------------------------------------
# C08 FEN, C12 parsers (board.rs)
# ---------------------------------------------------------------------------------------------
K("C08/cells/one-rank", ["C08", "C12"], BD + "c08_cells_one_rank_roundtrip", ["board::format_cells", "board::parse_cells"],
  "for all boards whose men stand on one (arbitrary) rank: format_cells == canonical FEN board field (reference run-length encoder), parse_cells of it gives the cells back, and an independent reader reads the same cells",
  bounded="boards with at most one non-empty rank (all 13^8 contents, all 8 ranks); full boards: C08/cells/full-board (thorough)", timeout=5400, mem_gb=24, mem_est=8, tier="thorough")
K("C08/cells/full-board", ["C08"], BD + "c08_cells_full_board_roundtrip", ["board::format_cells", "board::parse_cells"],
  "for all 13^64 boards: format_cells == canonical FEN board field and parse_cells(format_cells(c)) == c", tier="thorough", timeout=7200, mem_gb=24)
K("C08/record/tail", ["C08", "C12"], "board::verif_kani_d::c08_record_tail_roundtrip_v2", ["<RawBoard as Display>::fmt", "<RawBoard as FromStr>::from_str", "board::parse_ep_source", "RawBoard::ep_dest"],
  "for both sides, all 16 rights sets, every rank-consistent en-passant mark (and none), all 65536 x 65536 counter values (board field fixed): the record has six space-separated fields in order, the en-passant field names the square behind the marked pawn, and from_str of the text returns the same raw board",
  assumes=["C20/text/castling-display", "C20/text/coord-display"], timeout=5400, mem_gb=24, mem_est=8, tier="thorough")
K("C12/fen/parse-cells", ["C12", "C08"], BD + "c12_parse_cells_total_len32", ["board::parse_cells"],
  "for all UTF-8 strings of <= 32 bytes: parse_cells returns a value or an error, never panics (incl. its three closing assert_eq!); Ok iff the independent reader accepts (FEN board with '.' also denoting an empty square), with the same cells",
  bounded="strings of <= 32 bytes (a full board field has up to 71)", timeout=5400, mem_gb=24, mem_est=8, tier="thorough")
K("C12/fen/record-tail", ["C12", "C08"], "board::verif_kani_d::c12_raw_from_str_tail_total_v2", ["<RawBoard as FromStr>::from_str", "board::parse_ep_source"],
  "for a fixed board field followed by ANY <= 12 bytes: from_str returns a value or an error, never panics; an accepted record formats to text that parses back to the same raw board, and its mark is on the rank appropriate to the side to move (parse-format-parse stability of the five trailing fields)",
  bounded="<= 12 bytes after the board field", assumes=["C12/utf8-predicate"], timeout=5400, mem_gb=24, mem_est=8, tier="thorough")

# ---------------------------------------------------------------------------------------------
# spec-level lemmas (reference semantics only): C18, C02, C07 (d), class partition
# ---------------------------------------------------------------------------------------------
LM = "verif_lemmas::"
IMPL_EQ_REF = ISLEGAL + GEN_ALL + ["C01/gen/dispatch", "C07/calc-outcome", "C07/insufficient", "C16/attackers/white", "C16/attackers/black", "C16/check-queries/w", "C16/check-queries/b",
                                   "C11/try-from/accepts"] + ["C06/semilegal/%s/%s" % (_k, _c) for _s, _k in KINDS for _c in ("w", "b")]
K("C18/spec/attacks", ["C18"], LM + "c18_attacks_commute_with_mirrors", [],
  "rules: for all raw boards, the attackers of every square commute with the colour mirror (ranks flipped, colours swapped) and with the left-right mirror; both mirrors are involutions",
  assumes=IMPL_EQ_REF, timeout=3000, mem_gb=16)
K("C18/spec/validity-colour-mirror", ["C18"], LM + "c18_validity_commutes_with_colour_mirror", [],
  "rules: for all raw boards, validity and insufficient material are the same for the board and its colour mirror (side, rights, mark swapped)", assumes=IMPL_EQ_REF, timeout=3000, mem_gb=16)
K("C18/spec/validity-left-right-mirror", ["C18"], LM + "c18_validity_commutes_with_left_right_mirror", [],
  "rules: the same for the left-right mirror", assumes=IMPL_EQ_REF, timeout=3000, mem_gb=16)
K("C18/spec/moves-colour-mirror", ["C18"], LM + "c18_moves_commute_with_colour_mirror", [],
  "rules: for all raw boards and all move tuples: well-formed / pseudo-legal / legal commute with the colour mirror and ref_apply(mirror) == mirror(ref_apply)", assumes=IMPL_EQ_REF, timeout=3000, mem_gb=16)
K("C18/spec/moves-left-right-mirror", ["C18"], LM + "c18_moves_commute_with_left_right_mirror", [],
  "rules: the same for the left-right mirror on boards without castling rights", assumes=IMPL_EQ_REF, timeout=3000, mem_gb=16)
K("C18/spec/outcome", ["C18"], LM + "c18_outcome_commutes", [], "rules: the outcome class is the same under the colour mirror with the winner swapped", assumes=IMPL_EQ_REF)
K("C02/spec/validity-preserved", ["C02"], LM + "c02_validity_preserved_by_legal_moves", [],
  "rules: from every valid, normalised raw position every legal move leads to a valid position whose rights and mark are already normalised (so re-validating the result succeeds and reproduces it identically)", timeout=3000, mem_gb=16)
K("C07/spec/castling-implies-step", ["C07"], LM + "c07_castling_legal_implies_king_step_legal", [],
  "rules: if a castling is legal then the king's single step towards that rook is legal (so has_legal_moves may skip castling)", timeout=3000)
K("C01/spec/partition", ["C01", "C06"], LM + "c01_classes_partition_pseudo_legal_moves", [],
  "rules: every pseudo-legal move lies in exactly one generator class; captures (destination occupied or en passant) and non-captures partition them; non-captures split into promotions and non-promotions", timeout=3000)

CH = "chain::verif_kani::"
K("C13/chain/equality", ["C13"], "chain::verif_kani_c::c13_chain_equality_v2", ["<BaseMoveChain as PartialEq>::eq"],
  "for all pairs of chains with arbitrary start positions, arbitrary live boards, arbitrary recorded moves (<= 3 each) and arbitrary stored outcomes: a == b iff start positions, move lists and stored outcomes are equal",
  bounded="move lists of length <= 3 (std iterator zip/all; everything else unbounded)", timeout=3000, mem_gb=16)
K("C17/walker/op-sequences", ["C17"], CH + "c17_walker_op_sequences_fixed_game", ["Walker::next", "Walker::prev", "Walker::start", "Walker::end", "Walker::set_board_pos", "BaseMoveChain::walk", "BaseMoveChain::push"],
  "for one fixed 4-ply game and EVERY sequence of 5 operations from {next, prev, start, end}: each returned move comes with exactly the position that preceded it (raw fields, hash, combined occupancy), None exactly at the ends, and the chain is untouched (real make/unmake code)",
  bounded="one fixed game of 4 plies, operation sequences of length 5", timeout=7200, mem_gb=30, mem_est=18, tier="thorough")

# ---------------------------------------------------------------------------------------------
# C19: unsafe-site map (lib/unsafe_map.py) + every obligation that executes / justifies a site
# ---------------------------------------------------------------------------------------------
import unsafe_map as _um
_cov = _um.covering_obligations()
for _o in OBS:
    if _o["id"] in _cov and "C19" not in _o["props"]:
        _o["props"].append("C19")
OBS.append(dict(id="C19/unsafe-site-map", props=["C19"], backend="scan", fns=[], tier="quick", assumes=sorted(_cov), timeout=60,
                stmt="every `unsafe` site of the working tree (scan of chess/src and chess_base/src) is listed in lib/unsafe_map.py with the obligations that execute it under Kani's pointer / bounds / intrinsic-precondition / unreachable checks for all inputs satisfying the invariant, or that prove the callee's precondition (Verus); a new or moved site makes this obligation undecided; sites justified only by an assumption (A-CAP, public unsafe fns) are reported as assumptions"))

V("C09/check-marks/verus", ["C09"], "san.vspec", ["san::Move::from_move"],
  "san::Move::from_move: Ok iff the move is legal; the data part is Data::from_move; the check mark is '+' iff the position after the move is check and the opponent has a legal move, '#' iff it is check and there is none, none otherwise",
  assumes=["C16/check-queries/w", "C16/check-queries/b", "C07/legal-filter", "C01/gen/dispatch", "C09/from-move/simple", "C09/from-move/pawns-castling"] + ["C02/make-move/%s/%s" % (_k, _c) for _s, _k in KINDS for _c in ("w", "b")])

E2E = []
for _g in ("gen_all", "gen_capture", "gen_simple", "gen_simple_no_promote", "gen_simple_promote"):
    E2E.append("C01/legal-gen/end-to-end-small/%s" % _g)
    K(E2E[-1], ["C01", "C06", "C19"], "movegen::verif_kani_b::e2e_small_%s" % _g,
      ["movegen::legal::%s" % _g, "movegen::semilegal::%s" % _g, "movegen::semilegal::%s_into" % _g, "movegen::UnsafeMoveList::push", "ArrayVec::retain"],
      "for every valid position with the two kings and at most one more man, and an arbitrary witness move w: legal::%s returns w exactly once iff w is legal by the rules and in that generator's class (real macro-generated glue, real ArrayVec)" % _g,
      bounded="positions with at most 3 men (the unbounded statement is the composition of C01/gen/*, C01/gen/dispatch, C01/legal/*)", timeout=1400, mem_gb=24, mem_est=12, tier="thorough")

K("C17/styled/empty-chain", ["C17"], "chain::verif_kani_c::c17_styled_list_empty_chain_v2", ["<StyledList as Display>::fmt", "<UciList as Display>::fmt", "BaseMoveChain::styled", "BaseMoveChain::uci"],
  "for the chain without moves and every number policy (incl. all 65536 custom numbers), move style, status policy and stored outcome: the styled text is exactly the status token of the STORED outcome (or nothing when hidden); the UCI list is empty", timeout=2400)
K("C17/lists/fixed-game", ["C17"], CH + "c17_lists_fixed_game", ["<StyledList as Display>::fmt", "<UciList as Display>::fmt", "BaseMoveChain::from_uci_list", "BaseMoveChain::push_uci_list"],
  "for one fixed 3-ply game starting with Black to move and every number policy (Omit / FromBoard / Custom n), status policy and stored outcome: the SAN list is 'N... e5 N+1. Nf3 Nc6 [status]' with numbers continuing from the start position's (or the custom) number; the UCI list is the moves in order joined by single spaces, and replaying it rebuilds an equal chain",
  bounded="one fixed game; SAN style only; custom start numbers < 256", timeout=7200, mem_gb=30, mem_est=18, tier="thorough")

K("C07/has-legal-moves/small-boards", ["C07"], "movegen::verif_kani_b::c07_has_legal_moves_small_boards", ["movegen::has_legal_moves", "Board::has_legal_moves"],
  "for every valid position with at most three men: has_legal_moves() == the legal move list is non-empty (real glue: ErrOnFirst, LegalFilter, side dispatch)",
  bounded="positions with at most 3 men", assumes=["C01/legal-gen/end-to-end-small/gen_all"], timeout=1400, mem_gb=24, mem_est=12, tier="thorough")
N("C19/capacity-witnesses", ["C19"], "movegen::verif_kani_b::n19_capacity_and_known_high_mobility_positions", ["movegen::MoveList", "movegen::semilegal::gen_all_into"],
  "NOT a proof of A-CAP: MoveList capacity is the documented 256 and is not exceeded by the highest-mobility positions known (218 legal in a reachable position; 242 semilegal with 15 promoted queens), evaluated on the real generator through the safe Vec sink")

K("C12/uci-list/push", ["C12", "C13", "C02"], "chain::verif_kani_b::c12_push_uci_list_total_len6", ["BaseMoveChain::push_uci_list", "<make::Uci as Make>::make_raw", "Move::from_uci_semilegal"],
  "for all UTF-8 strings of <= 6 bytes pushed onto the initial position: push_uci_list returns Ok or an error, never panics; on Ok exactly the whitespace-separated tokens were applied; on Err the error position is the failing token and the chain holds exactly the tokens before it (position unchanged if none)",
  bounded="strings of <= 6 bytes, initial position", timeout=5400, mem_gb=24, mem_est=8, tier="thorough")

GLUE = "for ALL boards with one king each, with the MoveGenImpl methods imported as 'pushes its class' and Checker::is_legal as a free boolean: "
K("C01/public-glue/into", ["C01", "C06", "C19"], "movegen::verif_kani_b::c01_glue_into", ["movegen::semilegal::gen_*_into (macro)"],
  GLUE + "each semilegal::<g>_into runs method <g> (and no other) into the caller's sink, exactly once", assumes=GEN_ALL + ["C01/gen/dispatch"], timeout=1800)
# (an obligation `C01/public-glue/has-legal-san` for has_legal_moves / san_candidates /
# san_pawn_capture_candidates was REMOVED: with the generator methods stubbed, Kani 0.68 evaluates
# `<generic::White as Color>::COLOR` to garbage inside the unstubbed do_is_cell_attacked::<White> and
# reports "unreachable code" in Cell::from_parts - a false alarm of the tool, see DESIGN.md A)
for _i, _g in enumerate(("gen_all", "gen_capture", "gen_simple", "gen_simple_no_promote", "gen_simple_promote")):
    K("C01/public-glue/list/%s" % _g, ["C01", "C06", "C19"], "movegen::verif_kani_c::c01_glue_list_v2_%s" % _g, ["movegen::semilegal::%s (macro)" % _g, "movegen::legal::%s (macro)" % _g, "movegen::UnsafeMoveList::push"],
      GLUE + "semilegal::%s returns what method %s pushes, as a list; legal::%s returns exactly that list filtered by the legality decision (real UnsafeMoveList and ArrayVec::retain)" % (_g, _g, _g),
      assumes=GEN_ALL + ISLEGAL + ["C01/gen/dispatch"], timeout=2400, mem_gb=24, mem_est=10, tier="quick")

K("C01/public-glue/side-dispatch", ["C01", "C06", "C07", "C09"], "movegen::verif_kani_c::c01_glue_side_dispatch", ["movegen::semilegal::gen_*_into (macro)", "movegen::semilegal::gen_all (macro)", "movegen::legal::gen_all (macro)", "movegen::has_legal_moves", "Board::has_legal_moves", "movegen::san_candidates", "movegen::san_pawn_capture_candidates", "movegen::LegalFilter::push", "movegen::MoveGenImpl::new"],
  GLUE + "every public wrapper runs the generator method INSTANTIATED FOR THE SIDE TO MOVE (the marker names method and colour); has_legal_moves == 'gen_for_has_legal_moves for the side to move pushed a move the legality decision accepts'; the two SAN candidate wrappers deliver exactly the accepted candidates of the side to move",
  assumes=GEN_ALL + ISLEGAL + ["C01/gen/dispatch"], timeout=2400, mem_gb=24, mem_est=10)

# obligations whose harness replaces a callee by its CONTRACT (other than the table stubs, which are
# extensionally equal to the real tables): a native run executes the real callee instead, so a
# counterexample of such an obligation cannot be replayed natively; it is reported with the
# verifier's concrete values and `no-failing-input-found`
for _o in OBS:
    if any(x in _o["id"] for x in ("public-glue", "C07/legal-filter", "C09/from-move/simple", "C09/into-move/", "C07/calc-outcome", "C01/validate-glue", "C11/try-from/normalised")):
        _o["no_native_replay"] = True

V("C05/lemma/fold", ["C05", "C14"], "hash.vspec", [],
  "over an UNINTERPRETED key function (so for the key tables of every build): changing one square changes the XOR fold by that square's old and new key (induction over the 64 squares); hence delta contract (C05/hash-delta/*) + frame (C03) + 'stored hash == from-scratch hash' before the step imply it after the step",
  assumes=["C05/hash-delta/%s/%s" % (_k, _c) for _s, _k in KINDS + [("null", "Null")] for _c in ("w", "b")] + ["C05/scratch/zobrist-hash"])

for _r, _rn in ((0, "eighth"), (3, "fifth"), (7, "first")):
    K("C08/cells/rank-row%d/format" % _r, ["C08"], "board::verif_kani_e::c08_fmt_rank_row%d" % _r, ["board::format_cells"],
      "for all 13^8 contents of the %s rank on an otherwise empty board: format_cells == the canonical FEN board field (reference run-length encoder)" % _rn,
      bounded="boards whose only non-empty rank is the %s (all 13^8 contents); symbolic row and full boards: thorough tier" % _rn, timeout=2400, mem_gb=24, mem_est=6)
    K("C08/cells/rank-row%d/parse" % _r, ["C08", "C12"], "board::verif_kani_e::c08_parse_rank_row%d" % _r, ["board::parse_cells"],
      "for all 13^8 contents of the %s rank on an otherwise empty board: parse_cells of the canonical text returns exactly those cells" % _rn,
      bounded="boards whose only non-empty rank is the %s" % _rn, timeout=2400, mem_gb=24, mem_est=6)

N("C08/record/tail-values", ["C08", "C12"], "board::verif_kani_f::n08_record_tail_all_values", ["<RawBoard as Display>::fmt", "<RawBoard as FromStr>::from_str", "board::parse_ep_source", "RawBoard::ep_dest"],
  "for both sides x all 16 rights sets x every rank-consistent en-passant mark (and none) x every value of each counter (and a 9x9 grid of boundary pairs), board field fixed: the record is exactly six space-separated fields in order (side, rights as KQkq or -, the square behind the marked pawn or -, half-move clock, move number) and from_str of the text returns the same raw board (exhaustive native evaluation, ~38 million records)",
  timeout=3000)

N("C08/record/tail-texts", ["C08", "C12"], "board::verif_kani_f::n08_record_tail_text_grammar", ["<RawBoard as FromStr>::from_str", "board::parse_ep_source", "<RawBoard as Display>::fmt"],
  "for every record '<board> <side> <rights> <mark> <clock> <number>' built from a finite token grammar (5 side tokens x 24 rights tokens x 70 mark tokens x 9 x 9 counter tokens, plus records cut after each field): parsing never panics, and whenever it returns a raw board, formatting that board and parsing the text again returns the same raw board",
  bounded="records built from the token grammar listed in kani/board_harness_f.rs (about 680 000 texts)", timeout=1800)

N("C12/fen/board-field-texts", ["C12", "C08"], "board::verif_kani_f::n12_board_field_text_grammar", ["<RawBoard as FromStr>::from_str", "board::parse_cells", "board::format_cells"],
  "for every record whose board field has 1..10 ranks, all '8' except two positions taking every pair of 18 rank tokens (too long, too short, bad characters, empty, '.', nine squares), with three different tails: parsing never panics, and accepted text is stable under parse-format-parse",
  bounded="board fields built from the token grammar listed in kani/board_harness_f.rs (about 50 000 texts)", timeout=1800)

N("C10/text/from-str-native", ["C10", "C12", "C02"], "moves::uci::verif_kani_b::n10_uci_from_str_total_native", ["<uci::Move as FromStr>::from_str", "<uci::Move as Display>::fmt"],
  "for every UTF-8 string of <= 3 bytes and every string of 4 or 5 characters over the UCI alphabet plus two multi-byte characters (contains the 20 481 canonical texts and every input of defect D2): parsing never panics; an accepted text prints back as itself and parses back to the same value; every canonical text (square square [nbrq], 0000) is accepted",
  bounded="all UTF-8 strings of <= 3 bytes; strings of 4-5 characters over a 27-character alphabet (about 31 million texts)", timeout=900)
N("C13/chain/equality-native", ["C13"], "chain::verif_kani_d::n13_chain_equality_family", ["<BaseMoveChain as PartialEq>::eq"],
  "for every pair of a family of ~250 chains (nine start positions, every prefix of their games, stored outcomes; including pairs that reach the SAME live board from DIFFERENT start positions): == holds exactly when start position, move list and stored outcome are equal",
  bounded="a fixed family of chains (the symbolic form C13/chain/equality is thorough)", timeout=900)
N("C09/san/roundtrip-native", ["C09"], "moves::san::verif_kani_e::n09_san_roundtrip_positions", ["san::Move::from_move", "san::Data::from_move", "san::Data::into_move", "<san::Move as Display>::fmt", "<san::Move as FromStr>::from_str", "san::AmbigDetector"],
  "for every legal move of 14 positions rich in ambiguity (three queens / four knights / four bishops reaching one square, castling, en passant, promotions): the SAN text parses back and resolves to the same move; piece moves carry exactly the least disambiguation that is unique among the legal moves (none, file, rank, both) and the capture sign iff the destination is occupied; distinct legal moves get distinct texts",
  bounded="14 fixed positions (the symbolic forms are C09/from-move/*, C09/into-move/*; into-move/simple is thorough)", timeout=900)
N("C17/walker/op-sequences-native", ["C17"], "chain::verif_kani_d::n17_walker_all_op_sequences", ["Walker::next", "Walker::prev", "Walker::start", "Walker::end", "Walker::set_board_pos", "BaseMoveChain::walk", "BaseMoveChain::push"],
  "for six fixed games (White and Black to move first, both castlings, en passant, capture-promotion, move number 65534) and EVERY sequence of <= 7 operations from {next, prev, start, end}: each returned move comes with exactly the position that preceded it (whole Board, replayed independently of the chain), None exactly at the ends, pos()/len() right, the chain equal to its snapshot afterwards",
  bounded="six fixed games of <= 6 plies, operation sequences of length <= 7 (the unbounded statement is C17/walker/verus)", timeout=1800)
N("C17/lists/policies-native", ["C17"], "chain::verif_kani_d::n17_lists_all_policies", ["<StyledList as Display>::fmt", "<UciList as Display>::fmt", "BaseMoveChain::from_uci_list", "BaseMoveChain::push_uci_list", "BaseMoveChain::styled", "BaseMoveChain::uci"],
  "for the same six games x 5 stored outcomes x number policies (Omit, FromBoard, Custom 0..299 and five large values) x 3 move styles x 2 status policies: the styled list is the moves in game order in the requested notation, a number before every White move and 'N...' before a Black first move continuing from the start position's number or the custom one, single spaces, and the status token of the STORED outcome; the UCI list is the moves joined by single spaces and replaying it from the start rebuilds an equal chain",
  bounded="six fixed games; custom start numbers 0..299, 999, 1000, 65535, 65536, 2^40", timeout=1800)

K("C12/san/from-str-4", ["C12", "C09", "C02"], "moves::san::verif_kani_d::c12_san_from_str_total_len4", ["<san::Move as FromStr>::from_str", "<san::Data as FromStr>::from_str"],
  "for all UTF-8 strings of <= 4 bytes (this contains every input of defect D2: \"N\", \"R+\", \"Kx\", \"\\u{20ac}\", \"N\\u{e9}4\"): SAN parsing returns a value or an error, never panics",
  bounded="strings of <= 4 bytes", assumes=["C12/utf8-predicate"], timeout=2400, mem_gb=24, mem_est=6, tier="thorough")
N("C12/san/from-str-native", ["C12", "C09", "C02"], "moves::san::verif_kani_e::n12_san_from_str_total_native", ["<san::Move as FromStr>::from_str", "<san::Data as FromStr>::from_str", "<san::Move as Display>::fmt", "<san::Data as Display>::fmt"],
  "for every UTF-8 string of <= 3 bytes and every string of 4 or 5 characters over the SAN alphabet plus two multi-byte characters (contains every input of defect D2): SAN parsing returns a value or an error, never panics, and a returned value prints to text that parses back to the same value",
  bounded="all UTF-8 strings of <= 3 bytes; strings of <= 5 characters over a 33-character alphabet (about 42 million texts)", timeout=1200)


# ---------------------------------------------------------------------------------------------
# The quick tier must finish within a quarter of an hour on a fresh tree (16 cores, ~10 verifier
# jobs at a time, nothing cached): per property it runs the obligations that decide the property's
# own functions; contracts it imports are discharged by the quick check of the property they belong
# to.  Heavier variants that add no new code path go to the thorough tier.
# ---------------------------------------------------------------------------------------------
import json as _json, re as _re, os
try:
    EXPECT = _json.load(open(os.path.join(os.path.dirname(os.path.abspath(__file__)), "expect.json")))
except Exception:  # noqa
    EXPECT = {}
for _o in OBS:
    _o["expect_s"] = EXPECT.get(_o["id"])


def _thorough(rx):
    for o in OBS:
        if _re.search(rx, o["id"]):
            o["tier"] = "thorough"


def _quick_for(rx, props):
    for o in OBS:
        if _re.search(rx, o["id"]):
            o["quick_for"] = [p for p in props if p in o["props"]] or list(props)


# the prefilter is kind-independent except for en passant: quick keeps en passant (both colours), one
# pawn kind per colour and the king moves; every-piece and castling forms are thorough
_thorough(r"^C01/legal/is-legal-prefilter/(Simple|CastlingKingside|CastlingQueenside)/")
_thorough(r"^C01/legal/is-legal-prefilter/(PawnDouble/[wb]|PromoteQueen/w)$")
_thorough(r"^C01/legal/is-legal/(CastlingKingside/b|CastlingQueenside/w)$")   # quick keeps one colour per castling side
# measured with `vp check` on a fresh copy: that machine is about 1.4 times slower than this sandbox
# and C01 / C02 ran into the deadline; single queries of more than ~8 minutes here do not fit
_thorough(r"^C01/legal/is-legal-prefilter/king-moves/[wb]$")   # 536 s here under load: does not fit there
_thorough(r"^C01/legal/is-legal/Simple/b$")
_thorough(r"^C02/make-move/(CastlingKingside/w|CastlingQueenside/b|PawnDouble/w)$")   # quick keeps one colour of each
_thorough(r"^C02/make-move/Simple/[wb]$")      # the Make wrapper is kind-independent; plain moves: C03/make/Simple + C01/legal/is-legal/Simple
# queen = do_gen_brq with both ray flags; bishop and rook run the same function with one flag each
_thorough(r"^(C01/gen|C07/gen-exit)/queen/.*/le3$")
_thorough(r"^C09/into-move/built/(pawn-move/b|pawn-capture/w)$")
_quick_for(r"^C01/legal/is-legal/", ["C01"])
_quick_for(r"^C01/legal/is-legal-prefilter/", ["C01", "C07"])
_quick_for(r"^C01/gen/", ["C01", "C06"])
_quick_for(r"^C01/gen/dispatch$", ["C01", "C06", "C07", "C09"])
_quick_for(r"^C06/semilegal/", ["C06"])
_quick_for(r"^C06/well-formed$", ["C06", "C10"])
_quick_for(r"^C02/make-move/", ["C02"])
_quick_for(r"^C03/make/", ["C03", "C04"])
_quick_for(r"^C05/hash-delta/", ["C05"])
_quick_for(r"^C05/scratch/", ["C05"])
_quick_for(r"^C07/legal-filter$", ["C07", "C09", "C01"])
_quick_for(r"^C07/gen-exit/", ["C07"])
_quick_for(r"^C07/calc-outcome$", ["C07", "C14"])
_quick_for(r"^C09/", ["C09"])
_quick_for(r"^C10/into-move/", ["C10"])
_quick_for(r"^C10/text/", ["C10", "C12"])
_quick_for(r"^C11/try-from/(accepts|error-is-true)$", ["C11"])
_quick_for(r"^C11/try-from/normalised$", ["C11", "C05"])
_quick_for(r"^C16/", ["C16"])
_quick_for(r"^C15/", ["C15"])
_quick_for(r"^C20/", ["C20"])
_quick_for(r"^C20/text/", ["C20", "C12"])
_quick_for(r"^C13/chain/verus$", ["C13", "C14", "C02", "C04", "C19"])
_quick_for(r"^C17/walker/verus$", ["C17", "C04", "C19"])
_quick_for(r"^C01/validate-glue$", ["C01", "C02"])
_quick_for(r"^C01/public-glue/", ["C01"])
_quick_for(r"^C01/public-glue/side-dispatch$", ["C01", "C07", "C09"])
_thorough(r"^(C13/chain/equality|C09/into-move/simple|C02/spec/validity-preserved)$")   # memory / > 1 h: see DESIGN.md section A
# spec-level lemmas about the reference alone that need more than ten minutes: thorough (no change
# to /repo can affect them; they validate kani/refspec.rs)
_thorough(r"^C18/spec/(validity-colour-mirror|validity-left-right-mirror|moves-colour-mirror|moves-left-right-mirror)$")


def _tag_quick(pid, rxs):
    for o in OBS:
        if o["tier"] == "quick" and any(_re.search(rx, o["id"]) for rx in rxs):
            if pid not in o["props"]:
                o["props"].append(pid)
            if o.get("quick_for") is not None and pid not in o["quick_for"]:
                o["quick_for"].append(pid)


# C18 quick: the cheap implementation == reference obligations that come in a white and a black
# instance, plus the colour-dependent constants (the symmetric reference makes any one-colour error fail)
_tag_quick("C18", [r"^C07/insufficient$", r"^C01/gen/(pawn-enpassant|pawn-simple/tt|castling|king/tt|pawn-capture)/[wb]$",
                   r"^C06/semilegal/(PawnDouble|Enpassant|CastlingKingside)/[wb]$", r"^C03/make/(Enpassant|PawnDouble)/[wb]$",
                   r"^C16/attackers/", r"^C15/castling/masks$", r"^C15/pawns/advances$", r"^C20/geometry/ranks-deltas$"])

# functions a property's statement depends on directly although another property owns their contract
_tag_quick("C04", [r"^C02/make-move/(Enpassant/w|CastlingKingside/b|PromoteQueen/b|Null/w)$"])   # rollback inside the safe path (all kinds: C02's check)
_tag_quick("C05", [r"^C03/make/"])                    # occupancy sets after make / unmake
_tag_quick("C13", [r"^C03/make/"])                    # push / pop are make / unmake
_tag_quick("C14", [r"^C05/hash-delta/"])              # repetition counting compares stored hashes
_tag_quick("C10", [r"^C06/semilegal/", r"^C06/well-formed$"])   # the UCI reader accepts iff the validator does
_tag_quick("C09", [r"^C01/gen/dispatch$", r"^C07/legal-filter$"])
_tag_quick("C07", [r"^C01/gen/dispatch$"])
_tag_quick("C02", [r"^C01/legal/is-legal/Enpassant/"])   # Move::validate (UCI / SAN application) decides with this checker

# C19: for every unsafe site the cheapest quick obligation that executes it (thorough: all of them)
_c19 = {"C19/unsafe-site-map", "C19/capacity-witnesses"}
_ids = {o["id"]: o for o in OBS}
for _key, (_n, _obl, _note) in _um.MAP.items():
    _cand = [i for i in _obl if i in _ids and _ids[i]["tier"] == "quick"]
    if _cand:
        _c19.add(min(_cand, key=lambda i: (EXPECT.get(i, 300), i)))
_c19.add("C11/try-from/accepts")       # validation is where out-of-range raw input is turned away
for _o in OBS:
    if _o["id"] == "C11/try-from/accepts" and "C19" not in _o["props"]:
        _o["props"].append("C19")
for _o in OBS:
    if "C19" in _o["props"] and _o["tier"] == "quick":
        _qf = _o.get("quick_for")
        if _o["id"] in _c19:
            if _qf is not None and "C19" not in _qf:
                _o["quick_for"] = _qf + ["C19"]
        else:
            _o["quick_for"] = [p for p in (_qf if _qf is not None else _o["props"]) if p != "C19"]


def by_id():
    return {o["id"]: o for o in OBS}


def closure(sel, tiers=("quick", "thorough")):
    """sel plus the transitive closure of what it assumes (imported contracts)"""
    ids = by_id()
    sel = list(sel)
    seen = {o["id"] for o in sel}
    todo = list(sel)
    while todo:
        o = todo.pop()
        for a in o["assumes"]:
            if a not in seen and a in ids and ids[a]["tier"] in tiers:
                seen.add(a)
                sel.append(ids[a])
                todo.append(ids[a])
    return sel


def for_property(pid, tier):
    """thorough: every obligation tagged with pid plus the transitive closure of the contracts they
    import.  quick (the check meant to run on every change, within a quarter of an hour on a fresh
    tree): the quick-tier obligations tagged with pid - restricted to `quick_for` where an obligation
    names the properties whose quick check it belongs to - WITHOUT the import closure: an imported
    contract is discharged by the quick check of the property it belongs to and is listed in the
    evidence under imported_contracts_not_run_in_this_tier."""
    if tier == "thorough":
        return closure([o for o in OBS if pid in o["props"]])
    return [o for o in OBS if pid in o["props"] and o["tier"] == "quick" and (o.get("quick_for") is None or pid in o["quick_for"])]


def imported_not_run(pid, obs):
    """the import closure of obs minus obs: [(id, properties whose quick check runs it)]"""
    run = {o["id"] for o in obs}
    out = []
    for o in closure(obs):
        if o["id"] not in run:
            owners = [p for p in o["props"] if o["tier"] == "quick" and (o.get("quick_for") is None or p in o["quick_for"])]
            out.append((o["id"], owners or ["thorough tier only"]))
    return sorted(out)
