"""The obligation registry: one entry per proof obligation (DESIGN.md 2.1, 4).

Fields: id, props (properties it serves), backend (kani-complete | kani-bounded | verus |
exhaustive-eval), pkg + harness (Kani), spec (Verus), tier (quick: also run by thorough),
fns (real functions under contract), assumes (ids of obligations whose contract is imported),
stmt (the contract in words, shown as a sample in the evidence), bound (for kani-bounded),
expect_panic (regex: the obligation is 'the call always panics with this message').
"""

OBS = []


def K(id, props, harness, fns, stmt, pkg="owlchess", tier="quick", assumes=(), timeout=900, mem_gb=14,
      solver="minisat", bounded=None, expect_panic=None):
    OBS.append(dict(id=id, props=list(props), backend="kani-bounded" if bounded else "kani-complete", pkg=pkg,
                    harness=harness,
                    fns=list(fns), stmt=stmt, tier=tier, assumes=list(assumes), timeout=timeout, mem_gb=mem_gb,
                    solver=solver, bound=bounded, expect_panic=expect_panic))


def V(id, props, spec, fns, stmt, tier="quick", assumes=(), timeout=300, rlimit=30):
    OBS.append(dict(id=id, props=list(props), backend="verus", spec=spec, fns=list(fns), stmt=stmt, tier=tier,
                    assumes=list(assumes), timeout=timeout, rlimit=rlimit))


def N(id, props, test, fns, stmt, pkg="owlchess", tier="quick", assumes=(), timeout=900):
    """native exhaustive evaluation of a finite instance set (labelled exhaustive-eval)"""
    OBS.append(dict(id=id, props=list(props), backend="exhaustive-eval", pkg=pkg, test=test, fns=list(fns), stmt=stmt,
                    tier=tier, assumes=list(assumes), timeout=timeout))


# ---------------------------------------------------------------------------------------------
# C20 core value types (chess_base)
# ---------------------------------------------------------------------------------------------
T = "types::verif_kani::"
B = "owlchess_base"
K("C20/types/file-index", ["C20"], T + "c20_file_index_roundtrip", ["File::index", "File::from_index", "File::from_index_unchecked", "File::as_char", "File::from_char"],
  "for all 8 files: from_index(index(f)) == f, as_char == 'a'+index, from_char(as_char(f)) == Some(f)", pkg=B)
K("C20/types/rank-index", ["C20"], T + "c20_rank_index_roundtrip", ["Rank::index", "Rank::from_index", "Rank::from_index_unchecked", "Rank::as_char", "Rank::from_char"],
  "for all 8 ranks: index round trip; rank k has index 8-k and character '0'+k", pkg=B)
K("C20/types/piece-index", ["C20"], T + "c20_piece_index_roundtrip", ["Piece::index", "Piece::from_index", "Piece::from_index_unchecked"],
  "for all 6 pieces: index round trip", pkg=B)
K("C20/types/coord-parts", ["C20", "C19"], T + "c20_coord_index_parts", ["Coord::from_parts", "Coord::file", "Coord::rank", "Coord::index", "Coord::from_index", "Coord::flipped_rank", "Coord::flipped_file", "Coord::diag", "Coord::antidiag"],
  "for all 8x8 (file, rank): index == 8*rank+file, parts round trip, flips mirror one coordinate, diag == file+rank, antidiag == 7-rank+file", pkg=B)
K("C20/types/coord-index", ["C20"], T + "c20_coord_from_index_total", ["Coord::from_index", "Coord::file", "Coord::rank"],
  "for all i < 64: from_index(i).index() == i and file/rank are i%8, i/8", pkg=B)
K("C20/types/coord-shift-add", ["C20", "C19"], T + "c20_coord_shift_add", ["Coord::shift", "Coord::add", "Coord::add_unchecked"],
  "for all squares and deltas in [-8,8]^2: shift == Some(square at (file+df, rank+dr)) iff that is on the board, else None; add(delta) is index arithmetic", pkg=B)
K("C20/types/cell-parts", ["C20"], T + "c20_cell_parts_roundtrip", ["Cell::from_parts", "Cell::color", "Cell::piece", "Cell::index", "Cell::from_index", "Cell::is_free", "Cell::is_occupied"],
  "for all 2x6 (colour, piece): index == 1+6*colour+piece; color/piece invert from_parts; EMPTY is index 0", pkg=B)
K("C20/types/cell-index", ["C20"], T + "c20_cell_index_total", ["Cell::from_index", "Cell::color", "Cell::piece"],
  "for all i < 13: from_index(i) decomposes to the unique (colour, piece) with that index", pkg=B)
K("C20/types/color", ["C20"], T + "c20_color_roundtrip", ["Color::inv", "Color::as_char", "Color::from_char"], "inv is an involution without fixed point; char round trip", pkg=B)
K("C20/types/castling-rights", ["C20"], T + "c20_castling_rights_set_model", ["CastlingRights::has", "CastlingRights::with", "CastlingRights::without", "CastlingRights::set", "CastlingRights::unset", "CastlingRights::unset_color", "CastlingRights::has_color", "CastlingRights::from_index", "CastlingRights::index"],
  "for all 16 values x 4 members x 4 probes: with/without/set/unset/unset_color/has_color agree with set insert/remove/membership; equality is extensional", pkg=B)
for t, msg in (("file", "file index must be between 0 and 7"), ("rank", "rank index must be between 0 and 7"), ("coord", "coord must be between 0 and 63"),
               ("piece", "piece index must be between 0 and 5"), ("cell", "index too large"), ("castling", "raw castling rights must be between 0 and 15")):
    K("C20/types/%s-from-index-rejects" % t, ["C20"], T + "c20_%s_from_index_rejects" % t, ["%s::from_index" % t.capitalize()],
      "for all usize out of range the checked constructor panics (the statement after the call is unreachable)", pkg=B, expect_panic=msg)
K("C20/types/chars-accept-exactly", ["C20", "C12"], T + "c20_chars_accept_exactly", ["File::from_char", "Rank::from_char", "Color::from_char", "Cell::from_char"],
  "for all Unicode scalar values: accepted exactly a-h / 1-8 / w,b / .PKNBRQpknbrq with the documented meaning", pkg=B)
K("C20/types/cell-chars", ["C20"], T + "c20_cell_as_char_roundtrip", ["Cell::as_char", "Cell::as_utf8_char", "Cell::from_char"], "for all 13 cells: from_char(as_char(c)) == c; utf8 pictures pairwise distinct", pkg=B)
K("C20/text/coord-from-str", ["C20", "C12"], T + "c20_coord_from_str_len4", ["<Coord as FromStr>::from_str", "<Coord as Display>::fmt"],
  "for all UTF-8 strings of <= 4 bytes: no panic; Ok iff [a-h][1-8]; value as written; Display gives the input back", pkg=B, bounded="strings of <= 4 bytes (every accepted string has 2)")
K("C20/text/color-cell-from-str", ["C20", "C12"], T + "c20_color_cell_from_str_len3", ["<Color as FromStr>::from_str", "<Cell as FromStr>::from_str", "<Color as Display>::fmt", "<Cell as Display>::fmt"],
  "for all UTF-8 strings of <= 3 bytes: no panic; accepted exactly the one-character spellings; Display gives the input back", pkg=B, bounded="strings of <= 3 bytes (every accepted string has 1)")
K("C20/text/castling-from-str", ["C20", "C12"], T + "c20_castling_from_str_len6", ["<CastlingRights as FromStr>::from_str"],
  "for all UTF-8 strings of <= 6 bytes: no panic; Ok iff '-' or a non-empty duplicate-free word over KQkq, value = its letters", pkg=B, bounded="strings of <= 6 bytes (every accepted string has <= 4)")
K("C20/text/castling-display", ["C20", "C08"], T + "c20_castling_display_roundtrip", ["<CastlingRights as Display>::fmt", "<CastlingRights as FromStr>::from_str"],
  "for all 16 values: text is '-' or members in order KQkq and parses back to the value", pkg=B)
K("C20/text/coord-display", ["C20", "C08"], T + "c20_coord_display_roundtrip", ["<Coord as Display>::fmt", "<Coord as FromStr>::from_str"],
  "for all 64 squares: text is file letter + rank digit and parses back", pkg=B)
K("C20/types/outcome-filter", ["C20", "C14", "C17"], T + "c20_outcome_filter_table", ["Outcome::is_force", "Outcome::passes", "Outcome::winner", "GameStatus::from"],
  "forced outcomes pass every filter, mandatory draws Strict and Relaxed, claimable draws only Relaxed; status token by winner", pkg=B)


def by_id():
    return {o["id"]: o for o in OBS}


def for_property(pid, tier):
    """obligations serving pid (directly), plus the transitive closure of what they assume."""
    ids = by_id()
    sel = [o for o in OBS if pid in o["props"] and (tier == "thorough" or o["tier"] == "quick")]
    seen = {o["id"] for o in sel}
    todo = list(sel)
    while todo:
        o = todo.pop()
        for a in o["assumes"]:
            if a not in seen and a in ids:
                oo = ids[a]
                if tier == "thorough" or oo["tier"] == "quick":
                    seen.add(a)
                    sel.append(oo)
                    todo.append(oo)
    return sel
