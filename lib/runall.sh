#!/bin/bash
# developer helper: run the quick (or $TIER) check of the given properties one after another
# usage: lib/runall.sh C07 C01 ...     (logs: /tmp/run_<id>.log, summary: /tmp/run_all.status, pids: /tmp/runall.pid /tmp/check.pid)
echo $$ > /tmp/runall.pid
cd /verif
for p in "$@"; do
  ./check $p ${TIER:+--tier $TIER} > /tmp/run_$p.log 2>&1 &
  echo $! > /tmp/check.pid
  wait $!
  echo "$p exit=$? $(tail -1 /tmp/run_$p.log | cut -c1-120)" >> /tmp/run_all.status
done
rm -f /tmp/runall.pid /tmp/check.pid
