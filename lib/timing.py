#!/usr/bin/env python3
"""Sum the last measured wall time of every obligation of a tier (from the result cache)."""
import json,glob,os,sys
sys.path.insert(0,'/verif/lib')
import obligations as O
tier=sys.argv[1] if len(sys.argv)>1 else 'quick'
best={}
for f in sorted(glob.glob('/verif/.cache/ob/*.json'),key=os.path.getmtime):
    d=json.load(open(f)); best[d['id']]=d
OBS=O.OBS if isinstance(O.OBS,list) else list(O.OBS.values())
q=[o for o in OBS if o.get('tier','quick')==tier]
tot=0; missing=[]; rows=[]
for o in q:
    d=best.get(o['id'])
    if d is None: missing.append(o['id']); continue
    tot+=d['seconds']; rows.append((d['seconds'],o['id'],d['status']))
rows.sort(reverse=True)
print(tier,'obligations',len(q),'with a measurement',len(rows),'total seconds',int(tot))
for r in rows[:int(sys.argv[2]) if len(sys.argv)>2 else 50]: print('%8.1f %s %s'%r)
print('no measurement:',missing)
