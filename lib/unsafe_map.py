"""C19: every `unsafe` site of the working tree, mapped to the obligations whose CBMC runs execute it
for all inputs satisfying the invariant (Kani's pointer, bounds, intrinsic-precondition and
unreachable checks are obligations of every harness), or to the Verus obligation that proves the
precondition of the unsafe callee.  Keyed by (file, enclosing fn as found by a backwards scan for
`fn`), with the number of sites expected there.  A site that is not in this table (new unsafe
code, or one more site in a known function) makes C19 *undecided*.

value: (expected count, [obligation ids], note)   - an empty obligation list means "not discharged",
and the note says why; those are reported as assumptions of C19, never as proved.
"""
import os
import re

W = ["w", "b"]


def _k(fmt):
    r = [fmt % c for c in W]
    # the slider / knight generators have a complete (thorough) and a bounded (quick) obligation
    if any(x in fmt for x in ("gen/knight/tt", "gen/bishop/tt", "gen/rook/tt", "gen/queen/tt")):
        r += [(fmt % c) + "/le3" for c in W]
    return r


MAP = {
    ("chess/src/attack.rs", "bb"): (1, [], "`unsafe impl Sync for MagicEntry`: a declaration (the raw pointer is to an immutable static); no memory access"),
    ("chess/src/attack.rs", "king"): (1, ["C15/attack/leapers-pawns"], ""),
    ("chess/src/attack.rs", "knight"): (1, ["C15/attack/leapers-pawns"], ""),
    ("chess/src/attack.rs", "pawn"): (2, ["C15/attack/leapers-pawns"], ""),
    ("chess/src/attack.rs", "bishop"): (1, ["C15/attack/bishop", "C15/attack/lookup-bounds"], "pointer `entry.lookup.add(idx)` checked in bounds for all 2^64 occupancies"),
    ("chess/src/attack.rs", "rook"): (1, ["C15/attack/lookup-bounds"], "quick: native bounds of every lookup region (idx < 2^(64-shift) for every occupancy); thorough: CBMC pointer checks in C15/attack/rook-sqNN"),
    ("chess/src/between.rs", "bishop_strict"): (1, ["C15/between/all-pairs"], ""),
    ("chess/src/between.rs", "rook_strict"): (1, ["C15/between/all-pairs"], ""),
    ("chess/src/between.rs", "is_bishop_valid"): (1, ["C15/between/all-pairs"], ""),
    ("chess/src/between.rs", "is_rook_valid"): (1, ["C15/between/all-pairs"], ""),
    ("chess/src/board.rs", "get"): (1, _k("C06/semilegal/Simple/%s") + _k("C03/make/Simple/%s"), "index is a Coord (< 64 by C20)"),
    ("chess/src/board.rs", "put"): (1, _k("C03/make/Simple/%s") + _k("C03/make/Enpassant/%s"), ""),
    ("chess/src/board.rs", "piece"): (1, _k("C16/attackers/%s".replace("%s", "%s")) if False else ["C16/attackers/white", "C16/attackers/black"], "index is a Cell (< 13 by C20)"),
    ("chess/src/board.rs", "piece_mut"): (1, _k("C03/make/Simple/%s") + _k("C03/make/PromoteQueen/%s"), ""),
    ("chess/src/chain.rs", "get_unchecked"): (1, [], "public `unsafe fn`: the index bound is the caller's obligation by its documented contract"),
    ("chess/src/chain.rs", "pop"): (1, ["C13/chain/verus"], "precondition of unmake_move_unchecked proved from the chain invariant (lemma_pop_pre_from_cinv)"),
    ("chess/src/chain.rs", "push_unchecked"): (1, ["C13/chain/verus"], "public `unsafe fn`; its own call to make_move_unchecked has no precondition beyond the caller's"),
    ("chess/src/chain.rs", "set_board_pos"): (2, ["C17/walker/verus"], "both unsafe calls: precondition proved for stacks of any length"),
    ("chess/src/movegen.rs", "add_move"): (1, _k("C01/gen/knight/tt/%s") + _k("C01/gen/king/tt/%s"), "Move::new_unchecked: every pushed move is pseudo-legal hence well-formed (all C01/gen obligations)"),
    ("chess/src/movegen.rs", "add_pawn_with_promote"): (1, _k("C01/gen/pawn-simple/tt/%s") + _k("C01/gen/pawn-capture/%s"), ""),
    ("chess/src/movegen.rs", "do_gen_pawn_single"): (1, _k("C01/gen/pawn-simple/tt/%s"), "add_unchecked stays on the board"),
    ("chess/src/movegen.rs", "do_gen_pawn_double"): (1, _k("C01/gen/pawn-simple/tt/%s"), ""),
    ("chess/src/movegen.rs", "do_gen_pawn_capture"): (1, _k("C01/gen/pawn-capture/%s"), ""),
    ("chess/src/movegen.rs", "gen_pawn_simple"): (2, _k("C01/gen/pawn-simple/tt/%s"), ""),
    ("chess/src/movegen.rs", "gen_pawn_capture"): (1, _k("C01/gen/pawn-capture/%s"), ""),
    ("chess/src/movegen.rs", "gen_pawn_enpassant"): (4, _k("C01/gen/pawn-enpassant/%s"), "ep +- 1 and ep + forward stay on the board for a rank-consistent mark"),
    ("chess/src/movegen.rs", "do_gen_kn"): (1, _k("C01/gen/knight/tt/%s") + _k("C01/gen/king/tt/%s"), "incl. `unreachable!()` arm"),
    ("chess/src/movegen.rs", "do_gen_brq"): (1, _k("C01/gen/bishop/tt/%s") + _k("C01/gen/rook/tt/%s") + _k("C01/gen/queen/tt/%s"), ""),
    ("chess/src/movegen.rs", "gen_castling"): (2, _k("C01/gen/castling/%s"), ""),
    ("chess/src/movegen.rs", "san_candidates"): (1, _k("C09/candidates/pieces/%s"), ""),
    ("chess/src/movegen.rs", "san_pawn_capture_candidates"): (6, _k("C09/candidates/pawn-captures/%s"), ""),
    ("chess/src/movegen.rs", "new"): (1, [], "UnsafeMoveList::new: sound only if no position has more than 256 semilegal moves - assumption A-CAP (not decided by this family, DESIGN.md C19)"),
    ("chess/src/movegen.rs", "push"): (1, [], "ArrayVec::push_unchecked: requires len < 256 - assumption A-CAP"),
    ("chess/src/movegen.rs", "gen_simple_promote"): (1, [], "the macro-generated semilegal::gen_* call UnsafeMoveList::new - assumption A-CAP"),
    ("chess/src/moves/base.rs", "new_unchecked"): (1, ["C06/well-formed"], "public `unsafe fn` (declaration)"),
    ("chess/src/moves/base.rs", "is_legal_unchecked"): (1, _k("C01/legal/is-legal/Simple/%s") + _k("C01/legal/is-legal/Enpassant/%s"), "public `unsafe fn` (declaration)"),
    ("chess/src/moves/base.rs", "validate"): (1, _k("C01/legal/is-legal/Simple/%s") + _k("C01/legal/is-legal/Enpassant/%s"), "is_legal_unchecked is called only after semi_validate succeeded"),
    ("chess/src/moves/base.rs", "do_make_enpassant"): (1, _k("C03/make/Enpassant/%s"), "dst - forward stays on the board for a well-formed en passant"),
    ("chess/src/moves/base.rs", "make_move_unchecked"): (1, _k("C03/make/Simple/%s"), "public `unsafe fn` (declaration)"),
    ("chess/src/moves/base.rs", "unmake_move_unchecked"): (1, _k("C03/make/Simple/%s"), "public `unsafe fn` (declaration)"),
    ("chess/src/moves/base.rs", "do_is_move_semilegal"): (4, [x for k in ("PawnDouble", "Enpassant", "CastlingKingside", "CastlingQueenside") for x in _k("C06/semilegal/" + k + "/%s")], "add_unchecked on well-formed moves only"),
    ("chess/src/moves/make.rs", "<module>"): (1, [], "`pub unsafe trait Make` (declaration)"),
    ("chess/src/moves/make.rs", "new"): (4, [], "Unchecked::new / TryUnchecked::new: public `unsafe fn`s, the caller's obligation"),
    ("chess/src/moves/make.rs", "make"): (7, _k("C02/make-move/Simple/%s") + _k("C02/make-move/PromoteQueen/%s") + _k("C10/into-move/%s"), "every make_move_unchecked is applied to a semi-validated (Move, Uci) or legal (San, by C09) move"),
    ("chess/src/moves/make.rs", "make_raw"): (8, _k("C02/make-move/Simple/%s") + _k("C02/make-move/PromoteQueen/%s") + ["C09/into-move/simple"], ""),
    ("chess/src/selftest.rs", "selftest"): (2, [], "feature `selftest` only; not part of the default build"),
    ("chess/src/zobrist.rs", "pieces"): (1, ["C05/keys/single-feature"], ""),
    ("chess/src/zobrist.rs", "enpassant"): (1, ["C05/keys/single-feature"], ""),
    ("chess/src/zobrist.rs", "castling"): (1, ["C05/keys/single-feature"], ""),
    ("chess/src/zobrist.rs", "castling_delta"): (2, ["C05/keys/castling-delta"], ""),
    ("chess_base/src/bitboard.rs", "next"): (1, ["C20/bitboard/iter-step"], "from_index_unchecked(trailing_zeros) < 64 because the word is non-zero"),
    ("chess_base/src/types.rs", "from_index_unchecked"): (5, ["C20/types/file-index", "C20/types/rank-index", "C20/types/piece-index", "C20/types/coord-parts", "C20/types/cell-parts"], "incl. the unreachable_unchecked arms"),
    ("chess_base/src/types.rs", "from_index"): (3, ["C20/types/file-index", "C20/types/rank-index", "C20/types/piece-index"], ""),
    ("chess_base/src/types.rs", "from_char_unchecked"): (2, ["C20/types/chars-accept-exactly"], ""),
    ("chess_base/src/types.rs", "from_char"): (2, ["C20/types/chars-accept-exactly"], ""),
    ("chess_base/src/types.rs", "iter"): (4, [], "File/Rank/Piece/Cell::iter map constant ranges through from_index_unchecked; not under contract (used by FEN formatting, covered there in C08 runs)"),
    ("chess_base/src/types.rs", "file"): (1, ["C20/types/coord-parts"], ""),
    ("chess_base/src/types.rs", "rank"): (1, ["C20/types/coord-parts"], ""),
    ("chess_base/src/types.rs", "piece"): (1, ["C20/types/cell-parts", "C20/types/cell-index"], "unreachable_unchecked arm: cell index < 13"),
    ("chess_base/src/types.rs", "add_unchecked"): (1, ["C20/types/coord-shift-add"], "public `unsafe fn` (declaration)"),
    ("chess_base/src/types.rs", "shift"): (1, ["C20/types/coord-shift-add"], ""),
}


def scan(repo):
    sites = {}
    for root in ("chess/src", "chess_base/src"):
        for d, _, fs in os.walk(os.path.join(repo, root)):
            for f in sorted(fs):
                if not f.endswith(".rs"):
                    continue
                p = os.path.join(d, f)
                rel = os.path.relpath(p, repo)
                in_test = False
                fn = "<module>"
                for i, l in enumerate(open(p).read().split("\n")):
                    if re.match(r"\s*mod tests\b", l):
                        in_test = True
                    m = re.match(r"\s*(?:pub(?:\([a-z]+\))? )?(?:const )?(?:unsafe )?fn (\w+)", l)
                    if m:
                        fn = m.group(1)
                    if l.strip().startswith("//"):
                        continue
                    if re.search(r"\bunsafe\b", l) and not in_test and "verif_kani" not in l:
                        sites.setdefault((rel, fn), []).append(i + 1)
    return sites


def covering_obligations():
    ids = set()
    for (cnt, obs, note) in MAP.values():
        ids.update(obs)
    return ids
