#!/usr/bin/env python3
"""Obligation ledger for the owlchess contract verification (see DESIGN.md section 2).

Everything here is plumbing: scratch copy + additive injection (Layer K), verbatim extraction
(Layer V, lib/extract.py), running the verifiers, classifying their answers, caching, evidence.
The deciding step is always a verifier run (cargo kani / verus) on text taken from /repo's
current working tree.
"""
import fcntl
import hashlib
import json
import os
import re
import resource
import shutil
import signal
import subprocess
import sys
import time
from concurrent.futures import ThreadPoolExecutor

VERIF = os.path.dirname(os.path.dirname(os.path.abspath(__file__)))
REPO = os.environ.get("VERIF_REPO", "/repo")
CACHE = os.path.join(VERIF, ".cache")
BUILD_ROOT = os.environ.get("VERIF_BUILD_ROOT", "/tmp/owlverif-build")
KANI_DIR = os.path.join(VERIF, "kani")
VERUS_DIR = os.path.join(VERIF, "verus")
REPLAYS = os.path.join(VERIF, "replays")
EVIDENCE = os.path.join(VERIF, "evidence")
JOBS = int(os.environ.get("VERIF_JOBS", str(os.cpu_count() or 4)))

KANI_FLAGS = ["-Z", "function-contracts", "-Z", "stubbing", "-Z", "unstable-options"]

# Source files of /repo that get a child harness module appended (additive edit kind 1 of
# DESIGN.md 2.2).  key: path relative to the repo root -> harness file under /verif/kani.
INJECT_CHILD = {
    "chess_base/src/types.rs": "base_types_harness.rs",
    "chess_base/src/bitboard.rs": "base_bitboard_harness.rs",
    "chess_base/src/bitboard_consts.rs": "base_consts_harness.rs",
    "chess_base/src/geometry.rs": "base_geometry_harness.rs",
    "chess/src/attack.rs": "attack_harness.rs",
    "chess/src/between.rs": "between_harness.rs",
    "chess/src/castling.rs": "castling_harness.rs",
    "chess/src/pawns.rs": "pawns_harness.rs",
    "chess/src/zobrist.rs": "zobrist_harness.rs",
    "chess/src/movegen.rs": "movegen_harness.rs",
    "chess/src/legal.rs": "legal_harness.rs",
    "chess/src/board.rs": "board_harness.rs",
    "chess/src/chain.rs": "chain_harness.rs",
    "chess/src/moves/base.rs": "moves_base_harness.rs",
    "chess/src/moves/make.rs": "moves_make_harness.rs",
    "chess/src/moves/uci.rs": "moves_uci_harness.rs",
    "chess/src/moves/san.rs": "moves_san_harness.rs",
}
# crate-level shared modules (reference semantics, symbolic constructors, native shim)
INJECT_CRATE = {
    "chess/src/lib.rs": ["shim.rs", "refspec.rs", "anyboard.rs", "lemmas.rs", "textutil.rs"],
    "chess_base/src/lib.rs": ["shim.rs", "textutil.rs"],
}
GUARD = "any(kani, owlchess_verif_replay)"
# harness files that use items of harness files of OTHER modules
HARNESS_FILE_DEPS = {"moves_san_harness_d.rs": ["textutil.rs"], "moves_san_harness_b.rs": ["textutil.rs"], "board_harness_d.rs": ["textutil.rs"], "board_harness_b.rs": ["zobrist_harness_b.rs", "zobrist_harness.rs"], "board_harness_c.rs": ["zobrist_harness_b.rs", "zobrist_harness.rs"],
                     "movegen_harness_c.rs": ["legal_harness_b.rs", "legal_harness.rs"]}


def log(*a):
    print(*a, file=sys.stderr, flush=True)


def sha(data):
    return hashlib.sha256(data).hexdigest()


def tool_versions():
    out = {}
    for name, cmd in (("kani", ["kani", "--version"]), ("cbmc", ["cbmc", "--version"]),
                      ("verus", ["verus", "--version"])):
        try:
            out[name] = subprocess.run(cmd, capture_output=True, text=True, timeout=60).stdout.strip().splitlines()[0:2]
        except Exception as e:  # noqa
            out[name] = ["unavailable: %s" % e]
    return out


_TV = None


def tv():
    global _TV
    if _TV is None:
        _TV = tool_versions()
    return _TV


def repo_files():
    """Files of the working tree that take part in a build (no target/, no .git/)."""
    res = []
    for top in ("Cargo.toml", "Cargo.lock", "chess", "chess_base"):
        p = os.path.join(REPO, top)
        if os.path.isfile(p):
            res.append(top)
        elif os.path.isdir(p):
            for d, dirs, files in os.walk(p):
                dirs[:] = sorted(x for x in dirs if x not in ("target", ".git"))
                for f in sorted(files):
                    res.append(os.path.relpath(os.path.join(d, f), REPO))
    return sorted(res)


def tree_hash():
    h = hashlib.sha256()
    for f in repo_files():
        h.update(f.encode() + b"\0")
        with open(os.path.join(REPO, f), "rb") as fh:
            h.update(hashlib.sha256(fh.read()).digest())
    return h.hexdigest()


def verif_hash(subdirs=("kani", "verus", "contracts", "lib", "native")):
    h = hashlib.sha256()
    for sd in subdirs:
        p = os.path.join(VERIF, sd)
        if not os.path.isdir(p):
            continue
        for d, dirs, files in os.walk(p):
            dirs[:] = sorted(x for x in dirs if x != "__pycache__")
            for f in sorted(files):
                if f.endswith(".pyc"):
                    continue
                fp = os.path.join(d, f)
                h.update(os.path.relpath(fp, VERIF).encode() + b"\0")
                with open(fp, "rb") as fh:
                    h.update(hashlib.sha256(fh.read()).digest())
    h.update(json.dumps(tv(), sort_keys=True).encode())
    return h.hexdigest()


# ------------------------------------------------------------------------------------------------
# Layer K: scratch copy with additive injection
# ------------------------------------------------------------------------------------------------

class Build:
    """A scratch copy of /repo's working tree with the harness modules injected, shared by the
    checks that run on the same tree (same tree hash + same /verif hash)."""

    def __init__(self, restrict=None):
        """restrict: optional set of harness file names; only those (plus the shared spec files and
        the base file of an extension file) are injected - used by `--only` runs to keep codegen short"""
        self.restrict = None
        if restrict:
            r = set(restrict)
            for f in list(r):
                r.update(HARNESS_FILE_DEPS.get(f, ()))
            for f in list(r):
                m = re.match(r"(.*_harness)_\w+\.rs$", f)
                if m:
                    r.add(m.group(1) + ".rs")
            self.restrict = r
        self.th = tree_hash()
        self.vh = verif_hash(("kani",))
        self.key = sha((self.th + self.vh + ",".join(sorted(self.restrict or []))).encode())[:24]
        self.dir = os.path.join(BUILD_ROOT, self.key)
        self.repo = os.path.join(self.dir, "repo")
        self.diff = None
        self._lockf = None
        self.codegen_s = {}

    def lock(self):
        os.makedirs(BUILD_ROOT, exist_ok=True)
        self._lockf = open(os.path.join(BUILD_ROOT, ".lock"), "w")
        fcntl.flock(self._lockf, fcntl.LOCK_EX)

    def unlock(self):
        if self._lockf:
            fcntl.flock(self._lockf, fcntl.LOCK_UN)
            self._lockf.close()
            self._lockf = None

    def prepare(self):
        """Create (or reuse) the scratch copy.  Other builds are evicted: at most one is kept."""
        self.lock()
        try:
            os.makedirs(BUILD_ROOT, exist_ok=True)
            others = [d for d in os.listdir(BUILD_ROOT) if not d.startswith(".") and d != self.key]
            others.sort(key=lambda d: os.path.getmtime(os.path.join(BUILD_ROOT, d)), reverse=True)
            keep = int(os.environ.get("VERIF_KEEP_BUILDS", "1"))      # besides the current one
            for d in others[keep:]:
                # only evict builds nobody is using (users hold a shared lock on 'inuse')
                p = os.path.join(BUILD_ROOT, d)
                try:
                    with open(os.path.join(p, "inuse"), "a") as fh:
                        fcntl.flock(fh, fcntl.LOCK_EX | fcntl.LOCK_NB)
                        shutil.rmtree(p, ignore_errors=True)
                except (BlockingIOError, FileNotFoundError, NotADirectoryError):
                    pass
            fresh = not os.path.exists(os.path.join(self.dir, "ready"))
            if fresh:
                shutil.rmtree(self.dir, ignore_errors=True)
                os.makedirs(self.repo)
                for f in repo_files():
                    dst = os.path.join(self.repo, f)
                    os.makedirs(os.path.dirname(dst), exist_ok=True)
                    shutil.copy2(os.path.join(REPO, f), dst)
                self.diff = self.inject()
                with open(os.path.join(self.dir, "injection.diff"), "w") as fh:
                    fh.write(self.diff)
                with open(os.path.join(self.dir, "ready"), "w") as fh:
                    fh.write(self.th)
            else:
                with open(os.path.join(self.dir, "injection.diff")) as fh:
                    self.diff = fh.read()
            self._inuse = open(os.path.join(self.dir, "inuse"), "a")
            fcntl.flock(self._inuse, fcntl.LOCK_SH)
        finally:
            self.unlock()
        return self

    def release(self, remove=False):
        try:
            fcntl.flock(self._inuse, fcntl.LOCK_UN)
            self._inuse.close()
        except Exception:  # noqa
            pass
        if remove:
            shutil.rmtree(self.dir, ignore_errors=True)

    def inject(self):
        """Additive edits only.  Returns the unified diff of what was added."""
        diffs = []
        os.makedirs(os.path.join(self.dir, "kani"), exist_ok=True)
        # the harness files are copied next to the scratch tree so that a later edit of /verif
        # cannot change a build that is keyed by the old /verif hash
        for f in os.listdir(KANI_DIR):
            shutil.copy2(os.path.join(KANI_DIR, f), os.path.join(self.dir, "kani", f))
        kdir = os.path.join(self.dir, "kani")
        for rel, mods in INJECT_CRATE.items():
            p = os.path.join(self.repo, rel)
            if not os.path.exists(p):
                continue
            add = "\n"
            for m in mods:
                if not os.path.exists(os.path.join(kdir, m)):
                    continue
                name = "verif_" + m[:-3]
                add += '#[cfg(%s)]\n#[path = "%s"]\n#[allow(dead_code, unused_imports, unused_macros)]\npub(crate) mod %s;\n' % (
                    GUARD, os.path.join(kdir, m), name)
            with open(p, "a") as fh:
                fh.write(add)
            diffs.append("+++ %s (appended)\n%s" % (rel, "".join("+" + l + "\n" for l in add.splitlines())))
        for rel, hf in INJECT_CHILD.items():
            p = os.path.join(self.repo, rel)
            if not os.path.exists(p):
                continue
            # <x>_harness.rs -> mod verif_kani; further files <x>_harness_<s>.rs -> mod verif_kani_<s>
            # (so that new obligations can be added without touching - and re-keying - existing files)
            stem = hf[:-3]
            files = sorted(f for f in os.listdir(kdir) if f == hf or (f.startswith(stem + "_") and f.endswith(".rs")))
            if self.restrict is not None:
                files = [f for f in files if f in self.restrict]
            add = ""
            for f in files:
                suffix = f[len(stem):-3]          # "" or "_<s>"
                add += '\n#[cfg(%s)]\n#[path = "%s"]\n#[allow(dead_code, unused_imports, unused_macros)]\npub(crate) mod verif_kani%s;\n' % (
                    GUARD, os.path.join(kdir, f), suffix)
            if not add:
                continue
            with open(p, "a") as fh:
                fh.write(add)
            diffs.append("+++ %s (appended)\n%s" % (rel, "".join("+" + l + "\n" for l in add.splitlines())))
        return "\n".join(diffs)

    def env(self, tmpdir=None):
        e = dict(os.environ)
        e["CARGO_NET_OFFLINE"] = "true"
        e.pop("RUSTFLAGS", None)
        if tmpdir:
            e["TMPDIR"] = tmpdir
        return e

    def codegen(self, pkg):
        """cargo kani --only-codegen for one package (all harnesses of it), once per build."""
        marker = os.path.join(self.dir, "codegen-%s.ok" % pkg)
        lockp = os.path.join(self.dir, "codegen-%s.lock" % pkg)
        with open(lockp, "w") as lf:
            fcntl.flock(lf, fcntl.LOCK_EX)
            if os.path.exists(marker):
                with open(marker) as fh:
                    self.codegen_s[pkg] = float(fh.read() or 0)
                return True, ""
            t0 = time.time()
            cmd = ["cargo", "kani", "-p", pkg, "--only-codegen"] + KANI_FLAGS
            pr = subprocess.run(cmd, cwd=self.repo, env=self.env(), capture_output=True, text=True)
            dt = time.time() - t0
            out = pr.stdout + pr.stderr
            with open(os.path.join(self.dir, "codegen-%s.log" % pkg), "w") as fh:
                fh.write(out)
            if pr.returncode != 0:
                return False, out
            with open(marker, "w") as fh:
                fh.write("%.1f" % dt)
            self.codegen_s[pkg] = dt
            return True, out


# ------------------------------------------------------------------------------------------------
# running one obligation
# ------------------------------------------------------------------------------------------------

def _limits(mem_gb):
    def f():
        os.setsid()
        if mem_gb:
            lim = int(mem_gb * (1 << 30))
            resource.setrlimit(resource.RLIMIT_AS, (lim, lim))
    return f


DEADLINE_AT = None   # absolute time after which no verifier process of this check may still run


def run_cmd(cmd, cwd, env, timeout, mem_gb=None):
    t0 = time.time()
    if DEADLINE_AT is not None:
        timeout = max(1.0, min(timeout, DEADLINE_AT - t0))
    p = subprocess.Popen(cmd, cwd=cwd, env=env, stdout=subprocess.PIPE, stderr=subprocess.STDOUT,
                         text=True, preexec_fn=_limits(mem_gb))
    try:
        out, _ = p.communicate(timeout=timeout)
        to = False
    except subprocess.TimeoutExpired:
        try:
            os.killpg(p.pid, signal.SIGKILL)
        except ProcessLookupError:
            pass
        out, _ = p.communicate()
        to = True
    return p.returncode, out, time.time() - t0, to


RE_SUMMARY = re.compile(r"\*\* (\d+) of (\d+) failed")
RE_COVER = re.compile(r"\*\* (\d+) of (\d+) cover properties satisfied")
RE_CHECK = re.compile(r"^Check (\d+): (\S+)\n\t - Status: (\w+)\n\t - Description: \"((?:.|\n)*?)\"\n(?:\t - Location: (.*)\n)?", re.M)


def parse_kani(out):
    """Classify a cargo-kani run.  Returns dict(status=discharged|failed|undecided, ...)."""
    r = {"checks": 0, "failed": [], "covers": None, "reason": ""}
    m = RE_SUMMARY.search(out)
    if m:
        r["checks"] = int(m.group(2))
        r["nfailed"] = int(m.group(1))
    mc = RE_COVER.search(out)
    if mc:
        r["covers"] = (int(mc.group(1)), int(mc.group(2)))
    failed = []
    unwind_fail = False
    unsupported = False
    for cm in RE_CHECK.finditer(out):
        name, status, desc, loc = cm.group(2), cm.group(3), cm.group(4), cm.group(5)
        if status == "FAILURE":
            if "unwinding assertion" in desc or ".unwind." in name:
                unwind_fail = True
            elif "unsupported" in name or "is not currently supported" in desc:
                unsupported = True
            else:
                failed.append({"check": name, "description": desc, "location": loc})
        elif status in ("UNDETERMINED",):
            pass
    if not failed and "VERIFICATION:- FAILED" in out:
        # fall back on the summary section (descriptions may span lines)
        for fm in re.finditer(r"Failed Checks: ((?:.|\n)*?)\n File: \"(.*?)\", line (\d+), in (\S+)", out):
            desc = fm.group(1)
            if "unwinding assertion" in desc:
                unwind_fail = True
            elif "is not currently supported" in desc:
                unsupported = True
            else:
                failed.append({"check": fm.group(4), "description": desc, "location": "%s:%s" % (fm.group(2), fm.group(3))})
    r["failed"] = failed
    if "VERIFICATION:- SUCCESSFUL" in out:
        if r["checks"] == 0:
            r["status"], r["reason"] = "undecided", "vacuous: no checks"
        elif r["covers"] is not None and r["covers"][0] != r["covers"][1]:
            r["status"], r["reason"] = "undecided", "vacuity guard: cover not satisfied %s" % (r["covers"],)
        else:
            r["status"] = "discharged"
    elif "VERIFICATION:- FAILED" in out:
        if unwind_fail and not failed:
            r["status"], r["reason"] = "undecided", "unwinding assertion failed"
        elif unsupported and not failed:
            r["status"], r["reason"] = "undecided", "unsupported construct"
        elif failed:
            # a failed unwinding assertion makes other failures unreliable only in the direction of
            # missing behaviours; a concrete failing check is still a failing check
            r["status"] = "failed"
        else:
            r["status"], r["reason"] = "undecided", "FAILED without a failing check"
    else:
        r["status"], r["reason"] = "undecided", "no verdict (build error, crash, limit)"
    return r


SHARED_HARNESS_FILES = ("shim.rs", "hmacros.rs", "refspec.rs", "anyboard.rs")
_FH = {}


def _file_hash(path):
    if path not in _FH:
        try:
            with open(path, "rb") as fh:
                _FH[path] = hashlib.sha256(fh.read()).hexdigest()
        except FileNotFoundError:
            _FH[path] = "missing"
    return _FH[path]


def harness_file_of(ob):
    """the /verif/kani file that holds the harness of a Kani / native obligation"""
    h = ob.get("harness") or ob.get("test") or ""
    if h.startswith("verif_"):
        return h.split("::")[0][len("verif_"):] + ".rs"
    m = re.match(r"(.*)::verif_kani(_\w+)?::", h)
    if not m:
        return None
    mod, suffix = m.group(1), m.group(2) or ""
    pre = "chess_base/src/" if ob.get("pkg") == "owlchess_base" else "chess/src/"
    rel = pre + mod.replace("::", "/") + ".rs"
    hf = INJECT_CHILD.get(rel)
    return (hf[:-3] + suffix + ".rs") if hf else None


def ob_key(build, ob):
    """cache key of one obligation: the whole repo tree, the tool versions, the obligation's
    registry entry and exactly the /verif files its query is built from.  Editing one harness
    file therefore does not invalidate results of obligations stated in other files."""
    parts = [build.th, json.dumps(tv(), sort_keys=True),
             json.dumps({k: v for k, v in ob.items() if k not in ("props", "stmt", "fns", "assumes", "tier")}, sort_keys=True)]
    if ob["backend"] == "scan":
        parts.append(_file_hash(os.path.join(VERIF, "lib", "unsafe_map.py")))
    elif ob["backend"] == "verus":
        for f in (os.path.join(VERUS_DIR, ob["spec"]), os.path.join(VERUS_DIR, "prelude.rs"),
                  os.path.join(VERIF, "lib", "extract.py")):
            parts.append(_file_hash(f))
        for f in ob.get("extra_files", []):
            parts.append(_file_hash(os.path.join(VERUS_DIR, f)))
    else:
        hf = harness_file_of(ob)
        parts.append(_file_hash(os.path.join(KANI_DIR, hf)) if hf else "nofile")
        m = re.match(r"(.*_harness)_\w+\.rs$", hf or "")
        if m:   # an extension file may use the helpers of the base harness file
            parts.append(_file_hash(os.path.join(KANI_DIR, m.group(1) + ".rs")))
        for dep in HARNESS_FILE_DEPS.get(hf or "", ()):
            parts.append(_file_hash(os.path.join(KANI_DIR, dep)))
        for f in SHARED_HARNESS_FILES:
            parts.append(_file_hash(os.path.join(KANI_DIR, f)))
    return sha("\n".join(parts).encode())[:32]


def cache_path(build, ob):
    return os.path.join(CACHE, "ob", ob_key(build, ob) + ".json")


def cache_get(build, ob):
    if os.environ.get("VERIF_NOCACHE"):
        return None
    p = cache_path(build, ob)
    if os.path.exists(p):
        try:
            with open(p) as fh:
                r = json.load(fh)
            os.utime(p, None)
            return r
        except Exception:  # noqa
            return None
    return None


def cache_put(build, ob, res):
    p = cache_path(build, ob)
    os.makedirs(os.path.dirname(p), exist_ok=True)
    tmp = p + ".tmp%d" % os.getpid()
    with open(tmp, "w") as fh:
        json.dump(res, fh)
    os.replace(tmp, p)


def run_kani_ob(build, ob, playback=False):
    """Run one Kani obligation in the shared build.  ob: dict from obligations.py."""
    tmpd = os.path.join(build.dir, "tmp", ob["id"].replace("/", "__") + ("-pb" if playback else ""))
    shutil.rmtree(tmpd, ignore_errors=True)
    os.makedirs(tmpd)
    cmd = ["cargo", "kani", "-p", ob["pkg"], "--harness", ob["harness"], "--exact"] + KANI_FLAGS
    cmd += ["--solver", ob.get("solver", "kissat"), "--no-assertion-reach-checks"]
    if not ob.get("unwindset"):
        # (kani refuses its own unwind flags together with --cbmc-args --unwindset; harnesses with an
        # unwindset carry #[kani::unwind] for their own loops)
        cmd += ["--default-unwind", str(ob.get("default_unwind", 70))]
    if playback:
        cmd += ["-Z", "concrete-playback", "--concrete-playback=print"]
    if ob.get("unwindset"):
        us = unwindset_args(build, ob, cmd, tmpd)
        if us is None:
            shutil.rmtree(tmpd, ignore_errors=True)
            return {"id": ob["id"], "backend": ob["backend"], "status": "undecided", "seconds": 0, "checks": 0, "failed": [],
                    "reason": "lost anchor: loops named in the obligation's unwindset not found in the harness", "cmd": " ".join(cmd)}
        cmd += ["--cbmc-args", "--unwindset", us]
    # registry timeouts were measured on an idle machine; scale them for loaded runs
    scale = float(os.environ.get("VERIF_TIMEOUT_SCALE", "2.5"))
    tmo = ob.get("timeout", 900) * scale
    if playback:
        tmo = min(2 * tmo, float(os.environ.get("VERIF_PLAYBACK_TIMEOUT", "3600")))
    rc, out, dt, to = run_cmd(cmd, build.repo, build.env(tmpd), tmo,
                              max(ob.get("mem_gb", 14), float(os.environ.get("VERIF_MEM_LIMIT_GB", "32"))))
    shutil.rmtree(tmpd, ignore_errors=True)
    res = parse_kani(out)
    res.update({"id": ob["id"], "backend": ob["backend"], "seconds": round(dt, 1), "cmd": " ".join(cmd)})
    if to:
        res["status"], res["reason"] = "undecided", "timeout after %ds" % dt
    elif res["status"] == "undecided" and ("bad_alloc" in out or "Out of memory" in out or rc in (-9, 137)):
        res["reason"] = "memory limit"
    if res["status"] != "discharged":
        res["output_tail"] = out[-6000:]
    if playback:
        res["playback"] = parse_playback(out)
    return res


def unwindset_args(build, ob, cmd, tmpd):
    """Per-loop unwinding bounds for the loops of the REAL function under contract (the harness's
    own loops keep the global #[kani::unwind]).  ob["unwindset"] = [(function substring, loop index
    within that function, bound)].  Loop ids are read from the harness's goto binary."""
    import glob
    short = ob["harness"].split("::")[-1]
    pat = os.path.join(build.repo, "target", "kani", "*", "debug", "build", "*", "*", "out", "*[0-9]%s.out" % short)
    files = glob.glob(pat)
    if not files:
        # the per-harness goto binary is produced by the first driver run; make one that stops at once
        run_cmd(cmd + ["--cbmc-args", "--show-loops"], build.repo, build.env(tmpd), 600, 8)
        files = glob.glob(pat)
    if not files:
        return None
    f = max(files, key=os.path.getmtime)
    pr = subprocess.run(["cbmc", "--show-loops", f], capture_output=True, text=True, timeout=300)
    loops = re.findall(r"^Loop (\S+)\.(\d+):\n\s+file (\S+) line (\d+).*? function (.*)$", pr.stdout, re.M)
    args = []
    for fsub, idx, bound in ob["unwindset"]:
        hit = [l for l in loops if fsub in l[4] and int(l[1]) == idx]
        if not hit:
            return None
        for l in hit:
            args.append("%s.%s:%d" % (l[0], l[1], bound))
    return ",".join(args)


RE_PB = re.compile(r"let concrete_vals: Vec<Vec<u8>> = vec!\[(.*?)\n\s*\];", re.S)


def parse_playback(out):
    """Extract the concrete byte vectors (one per kani::any() call, in call order)."""
    m = RE_PB.search(out)
    if not m:
        return None
    vals = []
    for vm in re.finditer(r"vec!\[([0-9,\s]*)\]", m.group(1)):
        body = vm.group(1).strip()
        vals.append([int(x) for x in body.split(",") if x.strip()] if body else [])
    return vals


def run_native_replay(build, ob, vals, ):
    """Run the harness body natively (ordinary rustc, real functions, no stubs) on the recorded
    values.  Returns (reproduced: bool|None, output)."""
    rdir = os.path.join(build.dir, "replay")
    os.makedirs(rdir, exist_ok=True)
    vf = os.path.join(rdir, ob["id"].replace("/", "__") + ".vals.json")
    with open(vf, "w") as fh:
        json.dump(vals, fh)
    env = build.env()
    env["RUSTFLAGS"] = "--cfg owlchess_verif_replay -Awarnings"
    env["VERIF_REPLAY_VALS"] = vf
    env["CARGO_TARGET_DIR"] = os.path.join(build.dir, "target-replay")
    cmd = ["cargo", "test", "--offline", "-p", ob["pkg"], "--lib", "--", "--exact", ob["harness"],
           "--nocapture", "--test-threads=1"]
    rc, out, dt, to = run_cmd(cmd, build.repo, env, 600)
    if to:
        return None, out[-4000:]
    if "REPLAY-DIVERGED" in out:
        return None, out[-4000:]
    if re.search(r"test result: FAILED", out) and "panicked" in out:
        return True, out[-4000:]
    if re.search(r"test result: ok\. 1 passed", out):
        return False, out[-4000:]
    return None, out[-4000:]


# ------------------------------------------------------------------------------------------------
# Layer V
# ------------------------------------------------------------------------------------------------

VERUS_SEMANTIC = re.compile(r"postcondition not satisfied|precondition not satisfied|assertion failed|invariant not satisfied"
                            r"|arithmetic (under|over)flow|decreases not satisfied|division by zero|recommendation not met|unreachable", re.I)


def run_verus_ob(build, ob):
    import extract
    t0 = time.time()
    vdir = os.path.join(build.dir, "verus")
    os.makedirs(vdir, exist_ok=True)
    try:
        text, rules = extract.assemble(build.repo, ob["spec"])
    except extract.AnchorLost as e:
        return {"id": ob["id"], "backend": "verus", "status": "undecided", "reason": "lost anchor: %s" % e,
                "seconds": 0, "checks": 0, "failed": []}
    fp = os.path.join(vdir, ob["id"].replace("/", "__") + ".rs")
    with open(fp, "w") as fh:
        fh.write(text)
    cmd = ["verus", fp, "--output-json", "--time", "--triggers-mode", "silent", "--rlimit", str(ob.get("rlimit", 30))]
    rc, out, dt, to = run_cmd(cmd, vdir, build.env(), ob.get("timeout", 300))
    res = {"id": ob["id"], "backend": "verus", "seconds": round(time.time() - t0, 1), "cmd": " ".join(cmd),
           "failed": [], "checks": 0, "extraction_rules": rules, "extracted_sha": sha(text.encode())[:16]}
    js = None
    i = out.find("{")
    # verus prints the json object last; rustc diagnostics come before it on stderr
    for mm in re.finditer(r"^\{", out, re.M):
        try:
            js = json.loads(out[mm.start():])
            break
        except Exception:  # noqa
            continue
    if to:
        res["status"], res["reason"] = "undecided", "timeout"
    elif js is None or "verification-results" not in js:
        res["status"], res["reason"] = "undecided", "verus produced no result (unsupported construct or build error)"
        res["output_tail"] = out[-6000:]
    else:
        vr = js["verification-results"]
        res["checks"] = vr.get("verified", 0) + vr.get("errors", 0)
        res["verified"] = vr.get("verified", 0)
        if vr.get("success") and vr.get("errors", 0) == 0 and vr.get("verified", 0) > 0:
            res["status"] = "discharged"
            # vacuity guard: with `assert(false)` at the start of every extracted function that has a
            # precondition, Verus must report one failed assertion per probe
            try:
                ptext, prules = extract.assemble(build.repo, ob["spec"], probe=True)
                nprobe = prules.get("_probes", 0)
                if nprobe:
                    pp = fp[:-3] + "_probe.rs"
                    with open(pp, "w") as fh:
                        fh.write(ptext)
                    rc2, out2, dt2, to2 = run_cmd(["verus", pp, "--triggers-mode", "silent", "--multiple-errors", "200",
                                                   "--rlimit", str(ob.get("rlimit", 30))], vdir, build.env(), ob.get("timeout", 300))
                    nfail = len(re.findall(r"error: assertion failed", out2))
                    res["vacuity_probes"] = {"probes": nprobe, "failed_as_they_must": nfail}
                    if "verification results" not in out2:
                        res["vacuity_probes"]["error"] = "probe run produced no result: " + out2[-300:]
                    elif nfail < nprobe:
                        res["status"], res["reason"] = "undecided", "vacuity guard: %d of %d precondition probes verified `false`" % (nprobe - nfail, nprobe)
            except Exception as e:  # noqa
                res["vacuity_probes"] = {"error": str(e)}
        elif vr.get("errors", 0) > 0:
            errs = re.findall(r"error: ([^\n]*)\n\s*--> [^\n]*:(\d+):\d+", out)
            kinds = [e[0] for e in errs]
            if any("rlimit" in k or "timed out" in k or "resource limit" in k.lower() for k in kinds):
                res["status"], res["reason"] = "undecided", "rlimit: " + "; ".join(kinds[:3])
            else:
                # only verification conditions that Verus could not establish count as failed; a
                # rejection of the extracted text itself (type error, unsupported construct, a loop
                # left without invariant / decreases) is a tool limit: undecided
                sem = [(k, ln) for k, ln in errs if VERUS_SEMANTIC.search(k)]
                if sem:
                    res["status"] = "failed"
                    res["failed"] = [{"check": k, "location": "line %s of extracted text" % ln} for k, ln in sem[:10]]
                else:
                    res["status"], res["reason"] = "undecided", "verus rejected the extracted text: " + "; ".join(kinds[:3])
            res["output_tail"] = out[-6000:]
        else:
            res["status"], res["reason"] = "undecided", "vacuous: nothing verified"
            res["output_tail"] = out[-3000:]
    return res


def run_native_ob(build, ob):
    """exhaustive-eval back end: a native #[test] in the harness module that enumerates a finite
    instance set completely on the real functions (no solver)."""
    env = build.env()
    env["RUSTFLAGS"] = "--cfg owlchess_verif_replay -Awarnings"
    env["CARGO_TARGET_DIR"] = os.path.join(build.dir, "target-replay")
    cmd = ["cargo", "test", "--offline", "--release", "-p", ob["pkg"], "--lib", "--", "--exact", ob["test"], "--nocapture",
           "--test-threads=1"]
    lockp = os.path.join(build.dir, "native.lock")
    with open(lockp, "w") as lf:
        fcntl.flock(lf, fcntl.LOCK_EX)   # one native cargo at a time (shared target dir)
        rc, out, dt, to = run_cmd(cmd, build.repo, env, ob.get("timeout", 900))
    res = {"id": ob["id"], "backend": "exhaustive-eval", "seconds": round(dt, 1), "cmd": " ".join(cmd), "failed": [], "checks": 0}
    m = re.search(r"EVALUATIONS: (\d+)", out)
    if m:
        res["checks"] = int(m.group(1))
        res["evaluations"] = int(m.group(1))
    if to:
        res["status"], res["reason"] = "undecided", "timeout"
    elif re.search(r"test result: ok\. 1 passed", out) and res["checks"] > 0:
        res["status"] = "discharged"
    elif re.search(r"test result: FAILED\. 0 passed; 1 failed", out):
        res["status"] = "failed"
        pm = re.search(r"panicked at ([^\n]*)\n([^\n]*)", out)
        ri = re.search(r"REPLAY-INPUT: ([^\n]*)", out)
        res["failed"] = [{"check": ob["test"], "description": (pm.group(2) if pm else (ri.group(1) if ri else "the evaluation failed")), "location": pm.group(1) if pm else ""}]
        res["output_tail"] = out[-4000:]
    else:
        res["status"], res["reason"] = "undecided", "native test did not run (build error or anchor lost)"
        res["output_tail"] = out[-4000:]
    return res


def native_typecheck(build):
    """developer helper: compile all harness modules natively (cfg owlchess_verif_replay)"""
    env = build.env()
    env["RUSTFLAGS"] = "--cfg owlchess_verif_replay -Awarnings"
    env["CARGO_TARGET_DIR"] = os.path.join(build.dir, "target-replay")
    rc, out, dt, to = run_cmd(["cargo", "test", "--offline", "--workspace", "--lib", "--no-run"], build.repo, env, 900)
    return rc, out


def run_scan_ob(build, ob):
    """C19: compare the unsafe sites of the scratch copy (= working tree) with lib/unsafe_map.py"""
    import unsafe_map
    t0 = time.time()
    sites = unsafe_map.scan(build.repo)
    problems, notes, n = [], [], 0
    for k, lines in sorted(sites.items()):
        n += len(lines)
        if k not in unsafe_map.MAP:
            problems.append("unmapped unsafe site(s) in %s fn %s at line(s) %s" % (k[0], k[1], lines))
        elif unsafe_map.MAP[k][0] != len(lines):
            problems.append("%s fn %s has %d unsafe sites, the map expects %d" % (k[0], k[1], len(lines), unsafe_map.MAP[k][0]))
        elif not unsafe_map.MAP[k][1]:
            notes.append("%s fn %s (%d): NOT discharged - %s" % (k[0], k[1], len(lines), unsafe_map.MAP[k][2]))
    res = {"id": ob["id"], "backend": "scan", "seconds": round(time.time() - t0, 2), "checks": n, "failed": [],
           "cmd": "lib/unsafe_map.py scan", "undischarged_sites": notes}
    if problems:
        res["status"], res["reason"] = "undecided", "; ".join(problems)[:600]
    else:
        res["status"] = "discharged"
    return res
