#!/usr/bin/env python3
"""developer helper: assemble a vspec against /repo and run verus on it: vtry.py chain.vspec"""
import sys, os, subprocess
sys.path.insert(0, os.path.dirname(os.path.abspath(__file__)))
import extract
text, rules = extract.assemble(os.environ.get("VERIF_REPO", "/repo"), sys.argv[1])
os.makedirs("/tmp/vx", exist_ok=True)
out = "/tmp/vx/" + sys.argv[1].replace(".vspec", ".rs")
open(out, "w").write(text)
for k, v in rules.items():
    print("  rule", k, v)
p = subprocess.run(["verus", out, "--time", "--rlimit", "30"] + sys.argv[2:], capture_output=True, text=True)
print((p.stdout + p.stderr)[-6000:])
